package main

import (
	"strconv"
	"go/types"
	"encoding/json"
	"flag"
	"fmt"
	"os"
	"path/filepath"
	"runtime"
	"sort"
	"strings"
	"sync"
	"time"

	"golang.org/x/tools/go/packages"
	"golang.org/x/tools/go/ssa"
	"golang.org/x/tools/go/ssa/ssautil"
)

type FuncResult struct {
	Key       string
	Short     string
	Contract  *Contract
	Gen       *Gen
	Obls      []Obl
	Err       string // out-of-subset / bind error
	WrapRerun bool
	GenSecs   float64
	SplitCallee, SplitVal string
}

var overlayFiles = map[string]string{}

type Loaded struct {
	prog *ssa.Program
	pkgs map[string]*ssa.Package
	secs float64
}

func loadPackages(repo string, paths []string, overlay map[string][]byte) (*Loaded, error) {
	t0 := time.Now()
	env := append(os.Environ(), "GOFLAGS=-mod=mod", "GOPROXY=off", "GOTOOLCHAIN=auto")
	// drop settings known to break toolchain resolution for /repo
	var clean []string
	for _, e := range env {
		if strings.HasPrefix(e, "GOSUMDB=") {
			continue
		}
		if strings.HasPrefix(e, "GOTOOLCHAIN=") && e != "GOTOOLCHAIN=auto" {
			continue
		}
		if strings.HasPrefix(e, "GOFLAGS=") && e != "GOFLAGS=-mod=mod" {
			continue
		}
		clean = append(clean, e)
	}
	cfg := &packages.Config{Mode: packages.LoadAllSyntax, Dir: repo, BuildFlags: []string{"-tags=verif"}, Env: clean, Overlay: overlay}
	pkgs, err := packages.Load(cfg, paths...)
	if err != nil {
		return nil, err
	}
	var errs []string
	packages.Visit(pkgs, nil, func(p *packages.Package) {
		if strings.HasPrefix(p.PkgPath, modulePath) {
			for _, e := range p.Errors {
				errs = append(errs, e.Error())
			}
		}
	})
	if len(errs) > 0 {
		return nil, fmt.Errorf("package errors: %s", strings.Join(errs, "; "))
	}
	prog, spkgs := ssautil.AllPackages(pkgs, ssa.NaiveForm)
	l := &Loaded{prog: prog, pkgs: map[string]*ssa.Package{}}
	for i, p := range pkgs {
		if spkgs[i] != nil {
			spkgs[i].Build()
			l.pkgs[p.PkgPath] = spkgs[i]
		}
	}
	registerFieldSorts(prog)
	l.secs = time.Since(t0).Seconds()
	return l, nil
}

func findFunc(l *Loaded, c *Contract) *ssa.Function {
	sp := l.pkgs[c.Pkg]
	if sp == nil {
		return nil
	}
	if dot := strings.Index(c.Fn, "."); dot > 0 {
		tt := sp.Type(c.Fn[:dot])
		if tt == nil {
			return nil
		}
		name := c.Fn[dot+1:]
		if l.prog.MethodSets.MethodSet(tt.Type()).Lookup(sp.Pkg, name) != nil {
			if m := l.prog.LookupMethod(tt.Type(), sp.Pkg, name); m != nil {
				return m
			}
		}
		ms := l.prog.MethodSets.MethodSet(types.NewPointer(tt.Type()))
		for i := 0; i < ms.Len(); i++ {
			if ms.At(i).Obj().Name() == name {
				return l.prog.MethodValue(ms.At(i))
			}
		}
		return nil
	}
	if strings.Contains(c.Fn, "$") { // anonymous function Outer$1
		parts := strings.SplitN(c.Fn, "$", 2)
		outer := sp.Func(parts[0])
		if outer == nil {
			return nil
		}
		for _, af := range outer.AnonFuncs {
			if af.Name() == c.Fn {
				return af
			}
		}
		return nil
	}
	return sp.Func(c.Fn)
}

func shortName(c *Contract) string {
	p := c.Pkg
	if i := strings.LastIndex(p, "/"); i >= 0 {
		p = p[i+1:]
	}
	return p + "." + c.Fn
}

// genFuncAll expands `split CALLEE : v1 v2 ...` clauses: the function is verified once per value
// with the callee's result replaced by the literal (plus one coverage obligation).
func genFuncAll(cs *ContractSet, l *Loaded, c *Contract, wrap bool) []*FuncResult {
	if len(c.Split) == 0 {
		return []*FuncResult{genFunc(cs, l, c, wrap, "", "")}
	}
	parts := strings.SplitN(c.Split[0], ":", 2)
	callee := strings.TrimSpace(parts[0])
	var out []*FuncResult
	for _, v := range strings.Fields(parts[1]) {
		out = append(out, genFunc(cs, l, c, wrap, callee, v))
	}
	if fn := findFunc(l, c); fn != nil {
		for _, p := range fn.Params {
			if p.Name() == callee { // split on a parameter: the cases must exhaust the precondition
				out = append(out, genFunc(cs, l, c, wrap, callee, "?cover:"+strings.TrimSpace(parts[1])))
			}
		}
	}
	return out
}

func genFunc(cs *ContractSet, l *Loaded, c *Contract, wrap bool, splitCallee, splitVal string) (fr *FuncResult) {
	fr = &FuncResult{Key: c.Key(), Short: shortName(c), Contract: c, SplitCallee: splitCallee, SplitVal: splitVal}
	if splitCallee != "" {
		fr.Short += "{" + splitCallee + "=" + splitVal + "}"
	}
	fn := findFunc(l, c)
	if fn == nil {
		fr.Err = "bind: no function " + c.Key() + " in the current tree"
		return
	}
	if fn.Blocks == nil {
		fr.Err = "bind: function " + c.Key() + " has no body"
		return
	}
	g := newGen(cs, fn, c, wrap)
	g.short = fr.Short
	g.splitCallee, g.splitVal = splitCallee, splitVal
	fr.Gen = g
	t0 := time.Now()
	func() {
		defer func() {
			if r := recover(); r != nil {
				if os.Getenv("GOVC_DEBUG") == "2" {
					panic(r)
				}
				switch e := r.(type) {
				case oosErr:
					fr.Err = "out-of-subset: " + e.msg
				case specErr:
					fr.Err = "contract error: " + e.msg
				default:
					if os.Getenv("GOVC_DEBUG") != "" {
						panic(r)
					}
					fr.Err = fmt.Sprintf("generator error: %v", r)
				}
			}
		}()
		// every loop in a function under contract needs an invariant clause (possibly `true`)
		li := findLoops(fn)
		for _, k := range li.ord {
			if len(c.Invs[k]) == 0 && !lemmaOnly(c) {
				panic(specErr{fmt.Sprintf("loop %d has no invariant", k)})
			}
		}
		for k := range c.Invs {
			found := false
			for _, kk := range li.ord {
				if kk == k {
					found = true
				}
			}
			if !found {
				panic(specErr{fmt.Sprintf("bind: contract names loop %d but the function has %d loops", k, len(li.ord))})
			}
		}
		g.verify()
	}()
	fr.GenSecs = time.Since(t0).Seconds()
	fr.Obls = g.obls
	return
}

func lemmaOnly(c *Contract) bool { return c.Opt("lemmas_only") != "" }

func solveAll(frs []*FuncResult, timeoutS int, confirm bool, tmpdir string) {
	type job struct {
		fr *FuncResult
		i  int
	}
	var jobs []job
	for _, fr := range frs {
		for i := range fr.Obls {
			if fr.Obls[i].Result == "" {
				jobs = append(jobs, job{fr, i})
			}
		}
	}
	var wg sync.WaitGroup
	par := runtime.NumCPU()
	if solvePar > 0 {
		par = solvePar
	}
	sem := make(chan bool, par)
	for _, j := range jobs {
		wg.Add(1)
		sem <- true
		go func(j job) {
			defer wg.Done()
			t := timeoutS
			if j.fr.Contract != nil { // `opt timeout N`: a function whose obligations are known to need longer
				if n, err := strconv.Atoi(j.fr.Contract.Opt("timeout")); err == nil && n > 0 {
					t = t * n / 20
				}
			}
			j.fr.Gen.discharge(&j.fr.Obls[j.i], t, tmpdir, confirm)
			<-sem
		}(j)
	}
	wg.Wait()
}

// solvePar overrides the number of obligations solved at once (0: one per CPU).
var solvePar int

// retryUndecided gives every obligation the solvers did not decide (timeout / unknown) while all cores
// were busy a second, nearly uncontended run with three times the time limit, so that a slow or loaded
// machine does not turn a provable obligation into an alarm. A decided result (sat / unsat) is never
// retried: a refuted obligation stays refuted.
func retryUndecided(frs []*FuncResult, timeoutS int, tmpdir string) {
	if os.Getenv("GOVC_NO_RETRY") != "" {
		return // must-fail corpus runs: an undecided obligation already counts as caught
	}
	n := 0
	for _, fr := range frs {
		for i := range fr.Obls {
			if r := fr.Obls[i].Result; r == "timeout" || r == "unknown" {
				fr.Obls[i].Result = ""
				n++
			}
		}
	}
	if n == 0 {
		return
	}
	save := solvePar
	solvePar = 4
	solveAll(frs, 3*timeoutS, false, tmpdir)
	solvePar = save
}

type Finding struct {
	Property   string `json:"property"`
	Obligation string `json:"obligation"`
	What       string `json:"what"`
}

type FindingsFile struct {
	Findings []Finding `json:"findings"`
	Fixed    []string  `json:"fixed"`
}

func loadFindings(verif string) FindingsFile {
	var ff FindingsFile
	data, err := os.ReadFile(filepath.Join(verif, "known_findings.json"))
	if err == nil {
		json.Unmarshal(data, &ff)
	}
	return ff
}

type PropMeta struct {
	ID          string   `json:"id"`
	Level       string   `json:"level"`
	Assumptions []string `json:"assumptions"`
	Schemas     []string `json:"schemas,omitempty"` // Lean induction schemas the property's argument uses
	Bounded     string   `json:"bounded,omitempty"`
}

func cmdCheck(args []string) int {
	fs := flag.NewFlagSet("check", flag.ExitOnError)
	prop := fs.String("property", "", "property id")
	tier := fs.String("tier", os.Getenv("VERIF_TIER"), "quick|thorough")
	repo := fs.String("repo", envOr("VERIF_REPO", "/repo"), "repository")
	verif := fs.String("verif", envOr("VERIF_DIR", "/verif"), "verif dir")
	only := fs.String("func", "", "restrict to one function key suffix (debug)")
	verbose := fs.Bool("v", false, "verbose")
	noEvidence := fs.Bool("no-evidence", false, "do not write evidence (selftest)")
	overlay := fs.String("overlay", "", "comma separated orig=replacement source files (selftest mutants)")
	fs.Parse(args)
	if *tier == "" {
		*tier = "quick"
	}
	t0 := time.Now()
	seed := 0
	fmt.Sscan(os.Getenv("VERIF_SEED"), &seed)
	timeoutS := 20
	if *tier == "thorough" {
		timeoutS = 90
	}
	var ov map[string][]byte
	if *overlay != "" {
		ov = map[string][]byte{}
		for _, kv := range strings.Split(*overlay, ",") {
			parts := strings.SplitN(kv, "=", 2)
			data, err := os.ReadFile(parts[1])
			if err != nil {
				fmt.Println("ERROR overlay:", err)
				return 2
			}
			ov[parts[0]] = data
			overlayFiles[parts[0]] = parts[1]
		}
	}
	cs, err := loadContracts(*repo, filepath.Join(*verif, "contracts", "trusted"))
	if err != nil {
		fmt.Println("ERROR contracts:", err)
		return 2
	}
	var sel []*Contract
	pkgset := map[string]bool{}
	for _, k := range sortedContractKeys(cs) {
		c := cs.ByKey[k]
		if c.Trusted || !hasProp(c, *prop) {
			continue
		}
		if *only != "" && !strings.HasSuffix(c.Key(), *only) {
			continue
		}
		sel = append(sel, c)
		pkgset[c.Pkg] = true
	}
	if len(sel) == 0 {
		fmt.Printf("ERROR no contracts carry property %s\n", *prop)
		return 2
	}
	l, err := loadPackages(*repo, sortedKeysB(pkgset), ov)
	if err != nil {
		// the tree does not type-check: nothing can be decided
		fmt.Println("ERROR load:", err)
		return 2
	}
	// vacuity guard: an assumed (trusted) contract that names no function of a loaded package of this
	// module can never apply - a misspelt name would silently leave the real callee without contract
	for _, k := range sortedContractKeys(cs) {
		c := cs.ByKey[k]
		if !c.Trusted || !strings.HasPrefix(c.Pkg, modulePath) || strings.Contains(c.Fn, "$") {
			continue
		}
		sp := l.pkgs[c.Pkg]
		if sp == nil {
			continue
		}
		if dot := strings.Index(c.Fn, "."); dot > 0 {
			if tt := sp.Type(c.Fn[:dot]); tt != nil {
				if it, ok := tt.Type().Underlying().(*types.Interface); ok {
					found := false
					for i := 0; i < it.NumMethods(); i++ {
						if it.Method(i).Name() == c.Fn[dot+1:] {
							found = true
						}
					}
					if found {
						continue
					}
				}
			} else {
				continue // behaviour spec or pseudo type: not a declared type of the package
			}
		} else if sp.Func(c.Fn) == nil && sp.Members[c.Fn] == nil {
			if _, isSpec := cs.specTargets()[c.Key()]; isSpec {
				continue
			}
		}
		if findFunc(l, c) == nil {
			fmt.Printf("ERROR contracts: trusted contract %s names no function in the current tree (%s:%d)\n", c.Key(), c.File, c.Line)
			return 2
		}
	}
	tmpdir, _ := os.MkdirTemp("", "govc-*")
	defer os.RemoveAll(tmpdir)
	var frs []*FuncResult
	for _, c := range sel {
		frs = append(frs, genFuncAll(cs, l, c, false)...)
	}
	solveAll(frs, timeoutS, *tier == "thorough", tmpdir)
	retryUndecided(frs, timeoutS, tmpdir)
	// side conditions (no-overflow, sign of division) that fail are not violations: the function is
	// re-verified under exact wrap-around semantics and only its real obligations count.
	for i, fr := range frs {
		sideFail := false
		for _, o := range fr.Obls {
			if o.Kind == "side" && !o.ok() {
				sideFail = true
			}
		}
		if sideFail && fr.Err == "" {
			nfr := genFunc(cs, l, fr.Contract, true, fr.SplitCallee, fr.SplitVal)
			nfr.WrapRerun = true
			solveAll([]*FuncResult{nfr}, timeoutS, false, tmpdir)
			retryUndecided([]*FuncResult{nfr}, timeoutS, tmpdir)
			frs[i] = nfr
		}
	}
	if pm := loadPropMeta(*verif, *prop); pm != nil && len(pm.Schemas) > 0 && *only == "" {
		frs = append(frs, leanSchemas(*verif, pm.Schemas))
	}
	return report(*prop, *tier, seed, *verif, *repo, cs, l, frs, t0, *verbose, *noEvidence)
}

func sortedContractKeys(cs *ContractSet) []string {
	var ks []string
	for k := range cs.ByKey {
		ks = append(ks, k)
	}
	sort.Strings(ks)
	return ks
}

func envOr(k, d string) string {
	if v := os.Getenv(k); v != "" {
		return v
	}
	return d
}

func main() {
	if len(os.Args) < 2 {
		fmt.Println("usage: govc check|replay|selftest ...")
		os.Exit(2)
	}
	switch os.Args[1] {
	case "check":
		os.Exit(cmdCheck(os.Args[2:]))
	case "version":
		fmt.Println(govcVersion)
	case "replay":
		os.Exit(cmdReplay(os.Args[2:]))
	default:
		fmt.Println("unknown command", os.Args[1])
		os.Exit(2)
	}
}

// specTargets: contract keys that are the targets of behaviour specs (`field T.f : key`); they describe
// function values, not declared functions.
func (cs *ContractSet) specTargets() map[string]bool {
	m := map[string]bool{}
	for _, k := range cs.FieldSpecs {
		m[k] = true
	}
	return m
}
