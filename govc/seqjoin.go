package main

import "fmt"

// seqJoin introduces a fresh array N holding a[aOff..aOff+aLen) followed by b[bOff..bOff+bLen),
// starting at index newOff. The characterisation quantifies over the index of N itself with the
// pattern (select N j), so that any ground read of N instantiates it (arithmetic inside a trigger
// would not e-match).
func (g *Gen) seqJoin(st *State, name, aArr, aOff, aLen, bArr, bOff, bLen, newOff string) string {
	return g.seqJoinSort(st, name, "(Array Int Int)", aArr, aOff, aLen, bArr, bOff, bLen, newOff)
}

// seqJoinSort: seqJoin for an element array of the given sort (Int or Bool elements).
func (g *Gen) seqJoinSort(st *State, name, sort, aArr, aOff, aLen, bArr, bOff, bLen, newOff string) string {
	n := g.newSym(name, sort)
	j := "j!" + name
	g.assume(st, fmt.Sprintf("(forall ((%s Int)) (! (and (=> (and (<= %s %s) (< %s (+ %s %s))) (= (select %s %s) (select %s (+ %s (- %s %s))))) (=> (and (<= (+ %s %s) %s) (< %s (+ %s %s %s))) (= (select %s %s) (select %s (+ %s (- %s (+ %s %s))))))) :pattern ((select %s %s))))",
		j,
		newOff, j, j, newOff, aLen, n, j, aArr, aOff, j, newOff,
		newOff, aLen, j, j, newOff, aLen, bLen, n, j, bArr, bOff, j, newOff, aLen,
		n, j))
	return n
}
