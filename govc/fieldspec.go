package main

import "go/types"

// fieldSpecName names a function-typed struct field as "Type.field" (the key of `field` clauses).
func fieldSpecName(t types.Type, idx int) string {
	if p, ok := t.Underlying().(*types.Pointer); ok {
		t = p.Elem()
	}
	stt, ok := t.Underlying().(*types.Struct)
	if !ok || idx >= stt.NumFields() {
		return ""
	}
	return typeName(t) + "." + stt.Field(idx).Name()
}
