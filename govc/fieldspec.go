package main

import (
	"go/types"

	"golang.org/x/tools/go/ssa"
)

// fieldSpecName names a function-typed struct field as "Type.field" (the key of `field` clauses).
func fieldSpecName(t types.Type, idx int) string {
	if p, ok := t.Underlying().(*types.Pointer); ok {
		t = p.Elem()
	}
	stt, ok := t.Underlying().(*types.Struct)
	if !ok || idx >= stt.NumFields() {
		return ""
	}
	return typeName(t) + "." + stt.Field(idx).Name()
}

// strConstID: the opaque identity of a string constant regardless of the string mode (for fnname()).
func (g *Gen) strConstID(s string) Val { return Val{T: strID(s), Kind: "int"} }

// staticFnSpec derives the behaviour-spec key of a function value from the SSA that produced it:
// a captured function-typed variable ("Outer.name") or a function-typed struct field ("Type.field").
func staticFnSpec(v ssa.Value) string {
	switch x := v.(type) {
	case *ssa.UnOp:
		switch a := x.X.(type) {
		case *ssa.FreeVar:
			if a.Parent() != nil && a.Parent().Parent() != nil {
				return a.Parent().Parent().Name() + "." + a.Name()
			}
		case *ssa.FieldAddr:
			return fieldSpecName(a.X.Type(), a.Field)
		}
	case *ssa.Field:
		return fieldSpecName(x.X.Type(), x.Field)
	}
	return ""
}
