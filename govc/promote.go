package main

import (
	"fmt"
	"go/types"
)

// promote moves a local struct cell to the heap when its address is stored into memory that outlives
// the frame (x.f = &T{...}): a fresh object reference gets the cell's field values in the per-field
// heap arrays, and the cell is retired (any later access through the stale local pointer is out of
// subset rather than silently reading an old value).
func (g *Gen) promote(st *State, v Val) Val {
	if v.Kind != "ptr" || v.Cell == nil {
		return v
	}
	cv, ok := st.cells[v.Cell]
	if ok && (cv.Kind == "int" || cv.Kind == "bool") {
		// &l for an integer or bool local: the pointee moves to the scalar cell heap ("*int64", ...)
		if ptl, isP := v.Cell.Type().Underlying().(*types.Pointer); isP && isScalarCell(ptl.Elem()) {
			key := derefKey(g, ptl.Elem())
			r := g.freshRef(st)
			st.heap[key] = g.def("H", g.heapSort[key], fmt.Sprintf("(store %s %s %s)", g.heapGet(st, key), r, cv.T))
			st.cells[v.Cell] = Val{Kind: "moved"}
			return Val{T: r, Kind: "opaque", Ty: v.Cell.Type()}
		}
	}
	if !ok || cv.Kind != "struct" {
		panic(oos("address of a non-struct local stored into the heap"))
	}
	pt, ok := v.Cell.Type().Underlying().(*types.Pointer)
	if !ok {
		panic(oos("promote: not a pointer"))
	}
	stt, ok := pt.Elem().Underlying().(*types.Struct)
	if !ok {
		panic(oos("promote: not a struct"))
	}
	r := g.freshRef(st)
	for i := 0; i < stt.NumFields(); i++ {
		key, _ := g.heapKey(pt, i)
		fv := cv.Tup[i]
		switch {
		case (fv.Kind == "slice" || fv.Kind == "str") && fv.Ref != "":
			for _, part := range [][2]string{{"", fv.Ref}, {"#off", fv.Off}, {"#len", fv.Len}} {
				k := key + part[0]
				if _, ok := g.heapSort[k]; !ok {
					g.heapSort[k] = "(Array Int Int)"
				}
				st.heap[k] = g.def("H", "(Array Int Int)", fmt.Sprintf("(store %s %s %s)", g.heapGet(st, k), r, part[1]))
			}
		case fv.Kind == "int" || fv.Kind == "bool" || fv.Kind == "err" || fv.Kind == "opaque" || fv.Kind == "closure":
			st.heap[key] = g.def("H", g.heapSort[key], fmt.Sprintf("(store %s %s %s)", g.heapGet(st, key), r, fv.T))
		case fv.Kind == "map":
			st.heap[key] = g.def("H", g.heapSort[key], fmt.Sprintf("(store %s %s %s)", g.heapGet(st, key), r, fv.Ref))
		case fv.Kind == "ptr":
			in := g.promote(st, fv)
			st.heap[key] = g.def("H", g.heapSort[key], fmt.Sprintf("(store %s %s %s)", g.heapGet(st, key), r, in.T))
		default:
			panic(oos("promote: field " + stt.Field(i).Name() + " of kind " + fv.Kind))
		}
	}
	st.cells[v.Cell] = Val{Kind: "moved"}
	return Val{T: r, Kind: "opaque", Ty: v.Cell.Type()}
}

// tryPromote: promote when the cell's shape allows it, otherwise leave the value as it is.
func (g *Gen) tryPromote(st *State, v Val) (out Val) {
	out = v
	if v.Kind != "ptr" || v.Cell == nil {
		return
	}
	defer func() {
		if r := recover(); r != nil {
			if _, ok := r.(oosErr); ok {
				out = v
				return
			}
			panic(r)
		}
	}()
	return g.promote(st, v)
}
