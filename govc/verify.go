package main

import (
	"fmt"
	"go/types"
	"sort"
	"strings"

	"golang.org/x/tools/go/ssa"
)

var fieldSorts = map[string]string{} // "Type.field" -> heap array sort ("?" = ambiguous)

func registerFieldSorts(prog *ssa.Program) {
	for _, p := range prog.AllPackages() {
		for _, m := range p.Members {
			tn, ok := m.(*ssa.Type)
			if !ok {
				continue
			}
			stt, ok := tn.Type().Underlying().(*types.Struct)
			if !ok {
				continue
			}
			for i := 0; i < stt.NumFields(); i++ {
				key := tn.Name() + "." + stt.Field(i).Name()
				srt := "(Array Int Int)"
				if isBoolType(stt.Field(i).Type()) {
					srt = "(Array Int Bool)"
				}
				if old, ok := fieldSorts[key]; ok && old != srt {
					fieldSorts[key] = "?"
				} else {
					fieldSorts[key] = srt
				}
				if _, isSlice := stt.Field(i).Type().Underlying().(*types.Slice); isSlice || isStringType(stt.Field(i).Type()) {
					fieldIsSlice[key] = true
				}
				// a struct held by value inside another struct: its fields live under path keys
				// "Outer.field.inner" (instr.go FieldAddr on a heapfield)
				var nest func(prefix string, ft types.Type, depth int)
				nest = func(prefix string, ft types.Type, depth int) {
					ist, ok := ft.Underlying().(*types.Struct)
					if !ok || depth > 3 {
						return
					}
					if _, named := types.Unalias(ft).(*types.Named); named {
						nestPaths[typeName(ft)] = append(nestPaths[typeName(ft)], prefix)
					}
					for j := 0; j < ist.NumFields(); j++ {
						nest(prefix+"."+ist.Field(j).Name(), ist.Field(j).Type(), depth+1)
					}
				}
				nest(key, stt.Field(i).Type(), 1)
			}
		}
	}
}

var fieldIsSlice = map[string]bool{}  // "Type.field" is slice-typed (its offset/length live in Type.field#off / #len)
var nestPaths = map[string][]string{} // named struct type -> path keys under which it is held by value in other structs

func (g *Gen) initGhosts(st *State) {
	st.ghost["$panicking"] = Val{T: "false", Kind: "bool"}
	st.ghost["$obs"] = Val{T: "0", Kind: "int"}
	for _, name := range sortedKeysS(g.cs.Ghosts) {
		switch g.cs.Ghosts[name] {
		case "arrbool":
			st.ghost[name] = Val{T: g.newSym("g"+name[1:], "(Array Int Bool)"), Kind: "garrbool"}
		case "arrint":
			st.ghost[name] = Val{T: g.newSym("g"+name[1:], "(Array Int Int)"), Kind: "garrint"}
		case "int":
			st.ghost[name] = Val{T: g.newSym("g"+name[1:], "Int"), Kind: "int"}
		case "bool":
			st.ghost[name] = Val{T: g.newSym("g"+name[1:], "Bool"), Kind: "bool"}
		}
	}
	for k, v := range st.ghost {
		g.entryGhost[k] = v
	}
}

// verify generates all obligations of fn against its contract c.
func (g *Gen) verify() {
	fn, c := g.fn, g.c
	st := newState()
	g.initGhosts(st)
	env := map[string]Val{}
	coverVals := ""
	for _, p := range fn.Params {
		g.bindingParams = true
		v := g.symFor(p.Type(), p.Name(), st)
		g.bindingParams = false
		if p.Name() == g.splitCallee { // case split on a parameter: this instance uses the literal
			if strings.HasPrefix(g.splitVal, "?cover:") {
				coverVals = strings.TrimPrefix(g.splitVal, "?cover:")
			} else {
				v = intV(smtLit(g.splitVal))
			}
		}
		g.regs[p] = v
		env[p.Name()] = v
		env["old:"+p.Name()] = v
		g.paramVals[p.Name()] = v
	}
	// a closure verified on its own: captured variables hold arbitrary values of their types
	// (function-typed ones are governed by the behaviour spec `field <Outer>.<name> : spec`)
	for _, fv := range fn.FreeVars {
		pt, ok := fv.Type().(*types.Pointer)
		if !ok {
			st.fv[fv] = g.symFor(fv.Type(), fv.Name(), st)
			continue
		}
		cell := &ssa.Alloc{Comment: fv.Name()}
		v := g.symFor(pt.Elem(), fv.Name(), st)
		if _, isFn := pt.Elem().Underlying().(*types.Signature); isFn && fn.Parent() != nil {
			v.FnSpec = fn.Parent().Name() + "." + fv.Name()
		}
		st.cells[cell] = v
		st.fv[fv] = Val{Kind: "ptr", Cell: cell, Ty: fv.Type()}
		if g.capturedCells == nil {
			g.capturedCells = map[*ssa.Alloc]bool{}
		}
		g.capturedCells[cell] = true
		env[fv.Name()] = v
		env["old:"+fv.Name()] = v
	}
	g.entryHs = g.hsGet(st)
	g.env = env
	for _, r := range c.Requires {
		g.assume(st, g.spec(st, r.Expr, env))
	}
	for _, r := range c.Assumes {
		g.assume(st, g.spec(st, r.Expr, env))
		g.trustedUsed["unchecked entry assumption of "+g.short+": "+r.Expr] = true
	}
	if coverVals != "" {
		var alts []string
		for _, v := range strings.Fields(coverVals) {
			alts = append(alts, fmt.Sprintf("(= %s %s)", env[g.splitCallee].T, smtLit(v)))
		}
		g.oblige(st, "lemma", "split.exhaustive["+g.splitCallee+"]", c.Line, "(or false "+strings.Join(alts, " ")+")")
		return
	}
	// vacuity guard: the precondition must be satisfiable
	g.obls = append(g.obls, Obl{Name: "requires.cover", Kind: "cover", Pc: st.pc, Goal: "false", Cover: true})
	if len(c.Lemmas) == 0 || c.Opt("lemmas_only") == "" {
		g.retReach, g.cpReach, g.loopExit = map[int][]string{}, map[int][]string{}, map[int][]string{}
		r1, _ := g.execFunc(fn, st.clone(), true, nil)
		retReach, cpReach, loopExit := g.retReach, g.cpReach, g.loopExit
		g.retReach, g.cpReach, g.loopExit = nil, nil, nil
		if c.Inject != "" {
			g.injective(st, env, r1)
		}
		// vacuity guards inside the body: an assumption made on the way (a callee's postcondition, a
		// fresh-object fact, an invariant) that contradicts the path would make every later obligation
		// hold trivially. Each ensures clause A ==> B must have a return at which A can hold (a clause
		// without antecedent: a return that can be reached), and each callpre clause a call that can be
		// reached. Not asked of the variants of a split function, where one side of an antecedent is
		// cut away on purpose.
		if g.splitVal == "" {
			anyOf := func(xs []string) string {
				if len(xs) == 0 {
					return "false"
				}
				return "(or false " + strings.Join(xs, " ") + ")"
			}
			for i, e := range c.Ensures {
				g.obls = append(g.obls, Obl{Name: fmt.Sprintf("ensures[%s].reachable", clauseName(e, i)), Kind: "cover", Pc: anyOf(retReach[i]), Goal: "false", Cover: true, Line: c.Line})
			}
			// a loop that has invariants and an edge leaving it must be left on some path (an invariant
			// that contradicts the exit condition makes everything after the loop vacuous)
			var ks []int
			for k := range loopExit {
				ks = append(ks, k)
			}
			sort.Ints(ks)
			for _, k := range ks {
				if len(c.Invs[k]) > 0 {
					g.obls = append(g.obls, Obl{Name: fmt.Sprintf("loop%d.exit.reachable", k), Kind: "cover", Pc: anyOf(loopExit[k]), Goal: "false", Cover: true, Line: c.Line})
				}
			}
			for i, cp := range c.CallPre {
				if g.clauseBound[fmt.Sprintf("callpre#%d", i)] && len(cpReach[i]) > 0 {
					lbl := cp[0]
					if lbl == "" {
						lbl = fmt.Sprint(i + 1)
					}
					g.obls = append(g.obls, Obl{Name: fmt.Sprintf("callpre[%s](%s).reachable", lbl, cp[1]), Kind: "cover", Pc: anyOf(cpReach[i]), Goal: "false", Cover: true, Line: c.Line})
				}
			}
		}
		// vacuity guard: a clause about a callee must bind to at least one call in the function (a
		// clause that names no call would hold trivially; a change that removes the call is reported)
		unbound := func(kind string, i int, callee string) {
			if !g.clauseBound[fmt.Sprintf("%s#%d", kind, i)] {
				g.obls = append(g.obls, Obl{Name: fmt.Sprintf("%s[%s].binds-to-a-call", kind, callee), Kind: "pre", Pc: "true", Goal: "false", Line: c.Line})
			}
		}
		for i, cp := range c.CallPre {
			unbound("callpre", i, cp[1])
		}
		for i, gs := range c.GhostSet {
			unbound("ghostset", i, gs[0])
		}
		for i, ob := range c.Observe {
			unbound("observe", i, ob[0])
		}
	}
	g.lemmas(st, env)
}

// injective: second instance with a fresh value for the injective parameter, everything else shared.
func (g *Gen) injective(st *State, env map[string]Val, r1 *State) {
	fn, c := g.fn, g.c
	if r1 == nil {
		panic(specErr{"injective: function has no normal return"})
	}
	save := g.obls
	saveCnt := g.counters
	g.counters = map[string]int{}
	st2 := st.clone()
	var p2 *ssa.Parameter
	for _, p := range fn.Params {
		if p.Name() == c.Inject {
			p2 = p
		}
	}
	if p2 == nil {
		panic(specErr{"injective: no parameter " + c.Inject})
	}
	old := g.regs[p2]
	v2 := g.symFor(p2.Type(), c.Inject+"_2", st2)
	g.regs[p2] = v2
	env2 := map[string]Val{}
	for k, v := range env {
		env2[k] = v
	}
	env2[c.Inject] = v2
	env2["old:"+c.Inject] = v2
	for _, r := range c.Requires {
		g.assume(st2, g.spec(st2, r.Expr, env2))
	}
	g.env = env2
	r2, _ := g.execFunc(fn, st2, true, nil)
	g.env = env
	g.obls = save // obligations of the second copy are duplicates
	g.counters = saveCnt
	if r2 != nil {
		both := r1.clone()
		g.assume(both, r2.pc)
		g.assume(both, fmt.Sprintf("(not (= %s %s))", old.T, v2.T))
		g.oblige(both, "lemma", "lemma.injective["+c.Inject+"]", c.Line, fmt.Sprintf("(not (= %s %s))", r1.ghost["$obs"].T, r2.ghost["$obs"].T))
	}
	g.regs[p2] = old
}

func (g *Gen) lemmas(st *State, env map[string]Val) {
	fn, c := g.fn, g.c
	if len(c.Lemmas) == 0 {
		return
	}
	li := findLoops(fn)
	for i := range c.Lemmas {
		lm := &c.Lemmas[i]
		var hdr *ssa.BasicBlock
		for h, k := range li.ord {
			if k == lm.Loop {
				hdr = h
			}
		}
		if hdr == nil {
			g.obls = append(g.obls, Obl{Name: "bind.lemma[" + lm.Name + "]", Kind: "frame", Pc: "true", Goal: "false"})
			continue
		}
		ls := st.clone()
		// every cell allocated before the loop holds an arbitrary value of its type
		for _, bb := range fn.Blocks {
			if li.body[hdr][bb] {
				continue
			}
			for _, in := range bb.Instrs {
				if a, ok := in.(*ssa.Alloc); ok && bb.Dominates(hdr) {
					el := a.Type().(*types.Pointer).Elem()
					if isBufType(el) {
						g.bufAlloc(ls, a, false)
						continue
					}
					if _, isArr := el.Underlying().(*types.Array); isArr {
						g.step(fn, ls, a)
						continue
					}
					ls.cells[a] = g.symFor(el, a.Comment+"_L", ls)
				}
			}
		}
		// parameters are never reassigned in the functions lemmas are used on: bind their cells
		for _, in := range fn.Blocks[0].Instrs {
			if stt, ok := in.(*ssa.Store); ok {
				if a, ok := stt.Addr.(*ssa.Alloc); ok {
					if p, ok := stt.Val.(*ssa.Parameter); ok && !assignedElsewhere(fn, a, stt) {
						ls.cells[a] = g.regs[p]
					}
				}
			}
		}
		envL := map[string]Val{"$inv": {}}
		for k, v := range env {
			envL[k] = v
		}
		for a, v := range ls.cells {
			if a.Comment != "" {
				envL["old:"+a.Comment] = v
			}
		}
		for v, rv := range g.regs {
			if a, ok := v.(*ssa.Alloc); ok && a.Parent() == fn && a.Comment != "" && isBufType(a.Type().(*types.Pointer).Elem()) {
				envL["old:"+a.Comment] = g.bufOf(ls, rv, false)
			}
		}
		g.env = envL
		g.lemma, g.lemmaHdr = lm, hdr
		g.lemmaVars = map[string]Val{}
		g.assume(ls, g.spec(ls, lm.Assume, envL))
		g.obls = append(g.obls, Obl{Name: "lemma[" + lm.Name + "].cover", Kind: "cover", Pc: ls.pc, Goal: "false", Cover: true})
		cur := ls
		for it := 0; it < lm.Iter; it++ {
			g.backStates = nil
			g.execFunc(fn, cur, true, hdr)
			if len(g.backStates) == 0 {
				g.obls = append(g.obls, Obl{Name: "lemma[" + lm.Name + "].reach", Kind: "lemma", Pc: "true", Goal: "false"})
				cur = nil
				break
			}
			cur = g.merge(g.backStates).clone()
		}
		if cur != nil {
			g.oblige(cur, "lemma", "lemma["+lm.Name+"]", c.Line, g.spec(cur, lm.Assert, envL))
		}
		g.lemma, g.lemmaHdr = nil, nil
		g.env = env
	}
}

func assignedElsewhere(fn *ssa.Function, a *ssa.Alloc, except *ssa.Store) bool {
	for _, b := range fn.Blocks {
		for _, in := range b.Instrs {
			if s, ok := in.(*ssa.Store); ok && s != except && s.Addr == a {
				return true
			}
		}
	}
	return false
}

// ---------------------------------------------------------------- spec name lookup

func (g *Gen) cellByName(st *State, name string) (Val, bool) {
	var best *ssa.Alloc
	for a := range st.cells {
		if a.Comment == name && (g.capturedCells[a] || a.Parent() == g.fn) {
			if best == nil || a.Pos() > best.Pos() {
				best = a
			}
		}
	}
	if best != nil {
		return st.cells[best], true
	}
	// local buffers are heap objects bound to their Alloc
	for v, rv := range g.regs {
		if a, ok := v.(*ssa.Alloc); ok && a.Parent() == g.fn && a.Comment == name && isBufType(a.Type().(*types.Pointer).Elem()) {
			return g.bufOf(st, rv, false), true
		}
	}
	return Val{}, false
}

func (g *Gen) lookupName(st *State, name string, env map[string]Val) Val {
	_, isOld := env["$old"]
	if _, shadow := env["$p:"+name]; shadow {
		return env[name]
	}
	if strings.HasPrefix(name, "$") {
		if isOld {
			if v, ok := g.entryGhost[name]; ok {
				return v
			}
		}
		if v, ok := env[name]; ok {
			return v
		}
		if v, ok := st.ghost[name]; ok {
			return v
		}
		panic(specErr{"spec: unknown ghost " + name})
	}
	if isOld {
		if v, ok := env["old:"+name]; ok {
			if v.Kind == "map" {
				v.Heap = "old"
			} else if v.Ref != "" {
				v.Heap = g.entryHs
			}
			return v
		}
	}
	if name == "#i" { // index of the last completed iteration of a `range` over a slice/array/string (-1 based)
		name = "rangeindex"
	}
	if name == "#n" { // current iteration number of a `range` over an integer (at the loop head: 0 <= #n < bound)
		name = "rangeint.iter"
	}
	if _, inv := env["$inv"]; inv && !isOld {
		if v, ok := g.cellByName(st, name); ok {
			return v
		}
	}
	if v, ok := env[name]; ok {
		return v
	}
	switch name {
	case "nil":
		return Val{T: "0", Kind: "err"}
	case "true", "false":
		return Val{T: name, Kind: "bool"}
	case "MaxInt", "MaxInt64":
		return Val{T: maxInt, Kind: "int"}
	case "MinInt", "MinInt64":
		return Val{T: minInt, Kind: "int"}
	case "MaxInt32":
		return Val{T: "2147483647", Kind: "int"}
	}
	if v, ok := g.cellByName(st, name); ok {
		return v
	}
	if strings.HasPrefix(name, "q_") { // lemma-quantified variable
		if v, ok := g.lemmaVars[name]; ok {
			return v
		}
		v := Val{T: g.newSym(name, "Int"), Kind: "int"}
		g.lemmaVars[name] = v
		return v
	}
	// package-level variable of the function's package (sentinel errors etc.)
	if g.fn.Pkg != nil {
		if m, ok := g.fn.Pkg.Members[name]; ok {
			if gl, ok := m.(*ssa.Global); ok {
				key := globKey(gl)
				v := g.globalVal(st, key, gl.Type().(*types.Pointer).Elem())
				g.constGlobalFacts(st, gl, v)
				return v
			}
			if cn, ok := m.(*ssa.NamedConst); ok {
				return g.val(st, cn.Value)
			}
		}
	}
	panic(specErr{"spec: unknown name " + name})
}

// fieldOf evaluates spec expression base.f1.f2 (struct values by path, pointers through the heap).
func (g *Gen) fieldOf(st *State, base, field string, env map[string]Val) Val {
	// package-qualified constant (pkg.Name) of an imported package
	if _, shadow := env[base]; !shadow && g.fn.Pkg != nil {
		for _, imp := range g.fn.Pkg.Pkg.Imports() {
			if imp.Name() == base && !strings.Contains(field, ".") {
				if cn, ok := imp.Scope().Lookup(field).(*types.Const); ok {
					return g.val(st, ssa.NewConst(cn.Val(), cn.Type()))
				}
				panic(specErr{"spec: " + base + "." + field + " is not a constant"})
			}
		}
	}
	cur := g.lookupName(st, base, env)
	t := cur.Ty
	if t == nil && cur.Kind == "ptr" && cur.Cell != nil {
		t = cur.Cell.Type()
	}
	if t == nil {
		if tt, ok := g.specTypes[base]; ok {
			t = tt
		} else {
			for _, p := range g.fn.Params {
				if p.Name() == base {
					t = p.Type()
				}
			}
		}
	}
	_, isOld := env["$old"]
	pfx := "" // path key of an enclosing by-value struct field
	for _, fname := range strings.Split(field, ".") {
		if t == nil {
			panic(specErr{"spec: cannot type " + base + " in " + base + "." + field})
		}
		under := t.Underlying()
		if _, isStruct := under.(*types.Struct); isStruct && cur.Kind == "opaque" && cur.T != "" {
			// a struct value that was loaded through a pointer keeps the pointer's identity (instr.go load):
			// its fields are the heap fields of that object
			t = types.NewPointer(t)
			under = t.Underlying()
		}
		if pt, ok := under.(*types.Pointer); ok {
			stt, ok := pt.Elem().Underlying().(*types.Struct)
			if !ok {
				panic(specErr{"spec: field access on pointer to non-struct " + base + "." + field})
			}
			idx := fieldIndex(stt, fname)
			if idx < 0 {
				// promoted field through an embedded struct / pointer: resolve the embedding first
				if emb := embeddedWith(stt, fname); emb >= 0 {
					key, ft := g.heapKey(t, emb)
					h := g.heapGet(st, key)
					if isOld {
						if o, ok := g.entryHeap[key]; ok {
							h = o
						} else {
							h = "|H0." + key + "|"
							if _, ok := g.decls[h]; !ok {
								g.decls[h] = g.heapSort[key]
								g.declOrder = append(g.declOrder, h)
							}
						}
					}
					if est, isStruct := ft.Underlying().(*types.Struct); isStruct {
						// embedded by value: the fields live in arrays keyed by the path (instr.go FieldAddr on a
						// heapfield), indexed by the enclosing object
						pfx = key
						t = types.NewPointer(ft)
						stt = est
						idx = fieldIndex(stt, fname)
					} else {
						if _, isPtr := ft.Underlying().(*types.Pointer); !isPtr {
							panic(specErr{"spec: promoted field through embedded non-struct not supported: " + base + "." + field})
						}
						cur = Val{T: fmt.Sprintf("(select %s %s)", h, cur.T), Kind: "opaque", Ty: ft}
						t = ft
						pt = ft.Underlying().(*types.Pointer)
						stt = pt.Elem().Underlying().(*types.Struct)
						idx = fieldIndex(stt, fname)
					}
				}
			}
			if idx < 0 {
				panic(specErr{"spec: no field " + fname + " in " + base + "." + field})
			}
			if cur.Kind == "ptr" && cur.Cell != nil { // pointer to a local struct cell
				cv := st.cells[cur.Cell]
				cur = cv.Tup[idx]
				t = stt.Field(idx).Type()
				continue
			}
			key, ft := g.heapKey(t, idx)
			if pfx != "" {
				key = pfx + "." + stt.Field(idx).Name()
				if _, ok := g.heapSort[key]; !ok {
					g.heapSort[key] = "(Array Int Int)"
					if isBoolType(ft) {
						g.heapSort[key] = "(Array Int Bool)"
					}
				}
				pfx = ""
			}
			if _, isStruct := ft.Underlying().(*types.Struct); isStruct {
				// a struct held by value inside the object: continue with its fields under the path key
				pfx = key
				t = types.NewPointer(ft)
				continue
			}
			h := g.heapGet(st, key)
			if isOld {
				if o, ok := g.entryHeap[key]; ok {
					h = o
				} else {
					h = "|H0." + key + "|"
					if _, ok := g.decls[h]; !ok {
						g.decls[h] = g.heapSort[key]
						g.declOrder = append(g.declOrder, h)
					}
				}
			}
			cur0 := cur.T
			e := fmt.Sprintf("(select %s %s)", h, cur.T)
			k := "int"
			if g.heapSort[key] == "(Array Int Bool)" {
				k = "bool"
			}
			cur = Val{T: e, Kind: k, Ty: ft}
			if mt, ok := ft.Underlying().(*types.Map); ok {
				cur = g.mapFromRef(st, e, mt, ft)
			}
			_, isSliceField := ft.Underlying().(*types.Slice)
			if isStringType(ft) && !g.opaqueStr {
				isSliceField = true // strings are byte slices unless the function runs in opaque-string mode
			}
			if isSliceField {
				// slice-typed field: reference, offset and length live in three arrays (instr.go heapRead)
				part := func(sfx string) string {
					kk := key + sfx
					if _, ok := g.heapSort[kk]; !ok {
						g.heapSort[kk] = "(Array Int Int)"
					}
					hh := g.heapGet(st, kk)
					if isOld {
						hh = g.entryHeapOf(kk)
					}
					return fmt.Sprintf("(select %s %s)", hh, cur0)
				}
				off, ln := part("#off"), part("#len")
				g.assume(st, fmt.Sprintf("(and (>= %s 0) (<= 0 %s) (<= %s %s) (<= 0 %s) (<= %s %s) (=> (= %s 0) (= %s 0)))", e, off, off, maxLen, ln, ln, maxLen, e, ln))
				cur = Val{Ref: e, Off: off, Len: ln, Kind: "slice", Ty: ft}
				if isOld {
					cur.Heap = g.entryHs // elements are read from the entry version of the element arrays
				}
				if isStringType(ft) {
					hs := g.hsGet(st)
					if isOld {
						hs = g.entryHs
					}
					cur = Val{T: fmt.Sprintf("(select %s %s)", hs, e), Off: off, Len: ln, Kind: "str", Ty: ft}
				}
			}
			if _, ok := ft.Underlying().(*types.Pointer); ok {
				cur.Kind = "opaque"
			}
			t = ft
			continue
		}
		stt, ok := under.(*types.Struct)
		if !ok || cur.Kind != "struct" {
			panic(specErr{"spec: field access on " + cur.Kind + " in " + base + "." + field})
		}
		idx := fieldIndex(stt, fname)
		if idx < 0 {
			// promoted field of an embedded struct value
			if emb := embeddedWith(stt, fname); emb >= 0 && emb < len(cur.Tup) && cur.Tup[emb].Kind == "struct" {
				cur = cur.Tup[emb]
				stt = stt.Field(emb).Type().Underlying().(*types.Struct)
				idx = fieldIndex(stt, fname)
			}
		}
		if idx < 0 {
			panic(specErr{"spec: no field " + fname + " in " + base + "." + field})
		}
		cur = cur.Tup[idx]
		t = stt.Field(idx).Type()
		if cur.Ty == nil {
			cur.Ty = t
		}
	}
	if pfx != "" {
		panic(specErr{"spec: " + base + "." + field + " names a struct held by value inside an object; name one of its fields"})
	}
	return cur
}

func fieldIndex(stt *types.Struct, name string) int {
	for i := 0; i < stt.NumFields(); i++ {
		if stt.Field(i).Name() == name {
			return i
		}
	}
	return -1
}

// embeddedWith returns the index of the embedded field of stt (struct or pointer to struct) that
// directly declares field name, or -1.
func embeddedWith(stt *types.Struct, name string) int {
	for i := 0; i < stt.NumFields(); i++ {
		f := stt.Field(i)
		if !f.Embedded() {
			continue
		}
		t := f.Type()
		if p, ok := t.Underlying().(*types.Pointer); ok {
			t = p.Elem()
		}
		if s, ok := t.Underlying().(*types.Struct); ok && fieldIndex(s, name) >= 0 {
			return i
		}
	}
	return -1
}
