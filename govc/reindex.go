package main

import "strings"

// reindexQuant rewrites a quantified formula whose bound variable v only
// occurs as a bare bound or inside (+ X v) for one closed term X: it binds
// j = X + v instead, so the array index inside the body is the bare bound
// variable and e-matching finds ground instances whatever arithmetic shape
// the ground index has (z3 flattens (+ off (+ i 1)) and then (+ off k) no
// longer matches). The rewriting is a bijection on Int, hence equivalent.
func reindexQuant(v, body string) (string, string) {
	xs := map[string]bool{}
	pat := " " + v + ")"
	for i := 0; i+3 <= len(body); i++ {
		if !strings.HasPrefix(body[i:], "(+ ") {
			continue
		}
		j := sexprEnd(body, i+3)
		if j < 0 || !strings.HasPrefix(body[j:], pat) {
			continue
		}
		x := body[i+3 : j]
		if strings.Contains(x, "!q") {
			return v, body
		}
		xs[x] = true
	}
	if len(xs) != 1 {
		return v, body
	}
	var x string
	for k := range xs {
		x = k
	}
	if x == "0" {
		return v, body
	}
	nv := strings.TrimSuffix(v, "!q") + "!j!q"
	out := strings.ReplaceAll(body, "(+ "+x+" "+v+")", nv)
	out = replaceToken(out, v, "(- "+nv+" "+x+")")
	return nv, out
}

// sexprEnd returns the index just past the s-expression starting at i.
func sexprEnd(s string, i int) int {
	if i >= len(s) {
		return -1
	}
	if s[i] == '(' {
		d := 0
		for j := i; j < len(s); j++ {
			switch s[j] {
			case '(':
				d++
			case ')':
				d--
				if d == 0 {
					return j + 1
				}
			case '|':
				k := strings.IndexByte(s[j+1:], '|')
				if k < 0 {
					return -1
				}
				j += k + 1
			}
		}
		return -1
	}
	if s[i] == '|' {
		k := strings.IndexByte(s[i+1:], '|')
		if k < 0 {
			return -1
		}
		return i + k + 2
	}
	j := i
	for j < len(s) && s[j] != ' ' && s[j] != ')' && s[j] != '(' {
		j++
	}
	return j
}

// replaceToken replaces whole-token occurrences of tok.
func replaceToken(s, tok, with string) string {
	var b strings.Builder
	for i := 0; i < len(s); {
		if strings.HasPrefix(s[i:], tok) {
			pre := i == 0 || s[i-1] == ' ' || s[i-1] == '('
			e := i + len(tok)
			post := e == len(s) || s[e] == ' ' || s[e] == ')'
			if pre && post {
				b.WriteString(with)
				i = e
				continue
			}
		}
		b.WriteByte(s[i])
		i++
	}
	return b.String()
}
