package main

// Replay R1: turn a solver model of a failed obligation into an in-package Go test that calls the
// real function (go test -overlay, nothing is written into /repo) and decide on the concrete
// inputs/outputs whether the violated clause is really violated (or the predicted panic occurs).

import (
	"bytes"
	"context"
	"encoding/hex"
	"encoding/json"
	"fmt"
	"go/types"
	"os"
	"os/exec"
	"path/filepath"
	"regexp"
	"strconv"
	"strings"
	"time"
)

var pairRe = regexp.MustCompile(`\((\|[^|]*\|) (\(- \d+\)|\d+|true|false)\)`)

func parseModel(m string) map[string]string {
	out := map[string]string{}
	for _, p := range pairRe.FindAllStringSubmatch(m, -1) {
		v := p[2]
		if strings.HasPrefix(v, "(- ") {
			v = "-" + strings.TrimSuffix(v[3:], ")")
		}
		out[p[1]] = v
	}
	return out
}

type concArg struct {
	name  string
	goLit string
	val   Val // literal Val for spec evaluation
}

func basicKind(t types.Type) string {
	b, ok := t.Underlying().(*types.Basic)
	if !ok {
		return ""
	}
	switch {
	case b.Info()&types.IsBoolean != 0:
		return "bool"
	case b.Info()&types.IsInteger != 0:
		return "int"
	case b.Info()&types.IsString != 0:
		return "string"
	}
	return ""
}

func isByteSlice(t types.Type) bool {
	s, ok := t.Underlying().(*types.Slice)
	if !ok {
		return false
	}
	b, ok := s.Elem().Underlying().(*types.Basic)
	return ok && b.Kind() == types.Uint8
}

func litArray(bs []int64) string {
	a := emptyAr
	for i, b := range bs {
		a = fmt.Sprintf("(store %s %d %d)", a, i, b)
	}
	return a
}

// tryReplay fills rf.Replay / rf.ReplayOut.
func tryReplay(rf *ReplayFile, fr *FuncResult, o *Obl, repo string, cs *ContractSet) {
	g := fr.Gen
	fn := g.fn
	if o.Kind == "lemma" || o.Kind == "inv.entry" || o.Kind == "inv.step" || o.Kind == "xpost" || o.Kind == "pre" || o.Kind == "frame" || o.Kind == "callpre" {
		rf.Note += " (no direct replay for obligation kind " + o.Kind + ")"
		return
	}
	if fn.Signature.Recv() != nil || fn.Parent() != nil {
		rf.Note += " (no direct replay for methods/closures)"
		return
	}
	if g.opaqueStr {
		rf.Note += " (no direct replay in opaque-string mode)"
		return
	}
	model := parseModel(o.Model)
	// second query: element values for sequences
	type seqReq struct {
		name     string
		arr, off string
		n        int
	}
	var reqs []seqReq
	var args []concArg
	rf.Inputs = map[string]string{}
	for _, p := range fn.Params {
		v := g.paramVals[p.Name()]
		switch {
		case basicKind(p.Type()) == "int":
			val, ok := model[v.T]
			if !ok {
				val = "0"
			}
			args = append(args, concArg{name: p.Name(), goLit: fmt.Sprintf("%s(%s)", types.TypeString(p.Type(), types.RelativeTo(fn.Pkg.Pkg)), val), val: intV(smtLit(val))})
			rf.Inputs[p.Name()] = val
		case basicKind(p.Type()) == "bool":
			val, ok := model[v.T]
			if !ok {
				val = "false"
			}
			args = append(args, concArg{name: p.Name(), goLit: val, val: boolV(val)})
			rf.Inputs[p.Name()] = val
		case basicKind(p.Type()) == "string" || isByteSlice(p.Type()):
			ls, ok := model[v.Len]
			n, _ := strconv.Atoi(ls)
			if !ok {
				n = 0
			}
			if n > 4096 {
				rf.Note += " (model input too large to replay)"
				return
			}
			off := "0"
			arr := v.T
			if v.Ref != "" {
				arr = fmt.Sprintf("(select |Hs0| %s)", v.Ref)
				off = v.Off
			}
			reqs = append(reqs, seqReq{p.Name(), arr, off, n})
			args = append(args, concArg{name: p.Name()})
		default:
			rf.Note += " (parameter " + p.Name() + " of type " + p.Type().String() + " cannot be built from a model)"
			return
		}
	}
	if len(reqs) > 0 {
		// pin the scalar part of the model and ask for the elements
		script := g.smt(o)
		var pins, gets []string
		for sym, val := range model {
			if g.decls[sym] == "Int" {
				pins = append(pins, fmt.Sprintf("(assert (= %s %s))", sym, smtLit(val)))
			}
		}
		for _, r := range reqs {
			for i := 0; i < r.n; i++ {
				gets = append(gets, fmt.Sprintf("(select %s (+ %s %d))", r.arr, r.off, i))
			}
		}
		script = strings.Replace(script, "(check-sat)\n", strings.Join(pins, "\n")+"\n(check-sat)\n", 1)
		if len(gets) > 0 {
			script += "(get-value (" + strings.Join(gets, " ") + "))\n"
		}
		f, _ := os.CreateTemp("", "replay*.smt2")
		f.WriteString(script)
		f.Close()
		defer os.Remove(f.Name())
		res := runSolver(context.Background(), "z3-new", f.Name(), 30)
		if res.res != "sat" {
			rf.Note += " (model could not be made concrete: " + res.res + ")"
			return
		}
		valRe := regexp.MustCompile(`\)\s+(\(- \d+\)|\d+)\)`)
		vals := valRe.FindAllStringSubmatch(res.model, -1)
		k := 0
		for ai := range args {
			if args[ai].goLit != "" {
				continue
			}
			var r seqReq
			for _, rq := range reqs {
				if rq.name == args[ai].name {
					r = rq
				}
			}
			bs := make([]int64, r.n)
			raw := make([]byte, r.n)
			for i := 0; i < r.n; i++ {
				if k < len(vals) {
					n, _ := strconv.ParseInt(strings.Trim(strings.Replace(vals[k][1], "(- ", "-", 1), ")"), 10, 64)
					bs[i] = n & 255
					raw[i] = byte(n)
				}
				k++
			}
			var p types.Type
			for _, pp := range fn.Params {
				if pp.Name() == r.name {
					p = pp.Type()
				}
			}
			lit := fmt.Sprintf("%q", string(raw))
			kind := "str"
			if isByteSlice(p) {
				lit = "[]byte(" + lit + ")"
				kind = "slice"
			}
			args[ai].goLit = lit
			args[ai].val = Val{T: litArray(bs), Len: fmt.Sprint(r.n), Off: "0", Kind: kind}
			rf.Inputs[r.name] = "hex:" + hex.EncodeToString(raw)
		}
	}
	// build the test
	var call, prints bytes.Buffer
	var lits []string
	for _, a := range args {
		lits = append(lits, a.goLit)
	}
	res := fn.Signature.Results()
	var rnames []string
	for i := 0; i < res.Len(); i++ {
		rnames = append(rnames, fmt.Sprintf("r%d", i))
	}
	if res.Len() > 0 {
		fmt.Fprintf(&call, "%s := ", strings.Join(rnames, ", "))
	}
	fmt.Fprintf(&call, "%s(%s)", fn.Name(), strings.Join(lits, ", "))
	for i := 0; i < res.Len(); i++ {
		t := res.At(i).Type()
		switch {
		case basicKind(t) == "int":
			fmt.Fprintf(&prints, "\tfmt.Printf(\"GOVC-RES %d int %%d\\n\", int64(r%d))\n", i, i)
		case basicKind(t) == "bool":
			fmt.Fprintf(&prints, "\tfmt.Printf(\"GOVC-RES %d bool %%v\\n\", bool(r%d))\n", i, i)
		case basicKind(t) == "string":
			fmt.Fprintf(&prints, "\tfmt.Printf(\"GOVC-RES %d str %%x\\n\", string(r%d))\n", i, i)
		case isByteSlice(t):
			fmt.Fprintf(&prints, "\tfmt.Printf(\"GOVC-RES %d bytes %%x\\n\", []byte(r%d))\n", i, i)
		case isErrorType(t):
			fmt.Fprintf(&prints, "\tfmt.Printf(\"GOVC-RES %d err %%v\\n\", r%d != nil)\n", i, i)
		default:
			fmt.Fprintf(&prints, "\t_ = r%d\n\tfmt.Printf(\"GOVC-RES %d other\\n\")\n", i, i)
		}
	}
	src := fmt.Sprintf(`package %s

import (
	"fmt"
	"testing"
)

func TestGovcReplay(t *testing.T) {
	defer func() {
		if r := recover(); r != nil {
			fmt.Printf("GOVC-PANIC %%v\n", r)
		}
	}()
	%s
%s	fmt.Println("GOVC-DONE")
}
`, fn.Pkg.Pkg.Name(), call.String(), prints.String())
	rf.TestFile = src
	out, err := runReplayTest(repo, fr.Contract.Pkg, src)
	rf.ReplayOut = out
	if err != nil && !strings.Contains(out, "GOVC-") {
		rf.Note += " (replay did not run: " + err.Error() + ")"
		return
	}
	panicked := strings.Contains(out, "GOVC-PANIC")
	switch o.Kind {
	case "safety":
		if panicked {
			rf.Replay = "reproduced"
		} else {
			rf.Replay = "not reproduced"
		}
		return
	case "post":
		if panicked {
			rf.Replay = "reproduced"
			rf.Note += " (the real function panics on the model input)"
			return
		}
		// evaluate the clause on the concrete inputs and observed outputs
		idx := strings.Index(o.Name, "[")
		end := strings.Index(o.Name, "]")
		if idx < 0 || end < idx {
			return
		}
		label := o.Name[idx+1 : end]
		var clause *Clause
		for i := range g.c.Ensures {
			if clauseName(g.c.Ensures[i], i) == label {
				clause = &g.c.Ensures[i]
			}
		}
		if clause == nil {
			return
		}
		rf.Clause = clause.Expr
		eg := newGen(cs, fn, g.c, false)
		st := newState()
		env := map[string]Val{}
		for _, a := range args {
			env[a.name] = a.val
			env["old:"+a.name] = a.val
		}
		var rvals []Val
		for i := 0; i < res.Len(); i++ {
			v, ok := parseObserved(out, i)
			if !ok {
				rf.Note += " (result " + strconv.Itoa(i) + " not observable)"
				return
			}
			rvals = append(rvals, v)
		}
		env = eg.resultEnv(fn, g.c, rvals, env)
		var goal string
		func() {
			defer func() {
				if r := recover(); r != nil {
					rf.Note += fmt.Sprintf(" (clause not evaluable on concrete values: %v)", r)
				}
			}()
			for _, r := range g.c.Requires {
				eg.assume(st, eg.spec(st, r.Expr, env))
			}
			goal = eg.spec(st, clause.Expr, env)
		}()
		if goal == "" {
			return
		}
		ob := Obl{Name: "concrete", Pc: st.pc, Goal: goal}
		f, _ := os.CreateTemp("", "conc*.smt2")
		f.WriteString(eg.smt(&ob))
		f.Close()
		defer os.Remove(f.Name())
		r := runSolver(context.Background(), "z3-new", f.Name(), 30)
		switch r.res {
		case "sat":
			rf.Replay = "reproduced"
		case "unsat":
			rf.Replay = "not reproduced"
		}
	}
}

func smtLit(v string) string {
	if strings.HasPrefix(v, "-") {
		return "(- " + v[1:] + ")"
	}
	return v
}

func parseObserved(out string, i int) (Val, bool) {
	re := regexp.MustCompile(fmt.Sprintf(`GOVC-RES %d (\w+) ?(\S*)`, i))
	m := re.FindStringSubmatch(out)
	if m == nil {
		return Val{}, false
	}
	switch m[1] {
	case "int":
		return intV(smtLit(m[2])), true
	case "bool":
		return boolV(m[2]), true
	case "err":
		if m[2] == "true" {
			return Val{T: "1", Kind: "err"}, true
		}
		return Val{T: "0", Kind: "err"}, true
	case "str", "bytes":
		raw, err := hex.DecodeString(m[2])
		if err != nil {
			return Val{}, false
		}
		bs := make([]int64, len(raw))
		for j, b := range raw {
			bs[j] = int64(b)
		}
		k := "str"
		if m[1] == "bytes" {
			k = "slice"
		}
		return Val{T: litArray(bs), Len: fmt.Sprint(len(raw)), Off: "0", Kind: k}, true
	}
	return Val{}, false
}

// runReplayTest runs src as an extra in-package test file of pkg through go test -overlay.
func runReplayTest(repo, pkg, src string) (string, error) {
	dir, err := os.MkdirTemp("", "govc-replay-*")
	if err != nil {
		return "", err
	}
	defer os.RemoveAll(dir)
	rel := strings.TrimPrefix(strings.TrimPrefix(pkg, modulePath), "/")
	testPath := filepath.Join(repo, rel, "zz_govc_replay_test.go")
	srcPath := filepath.Join(dir, "replay_test.go")
	os.WriteFile(srcPath, []byte(src), 0644)
	repl := map[string]string{testPath: srcPath}
	for k, v := range overlayFiles {
		repl[k] = v
	}
	ov, _ := json.Marshal(map[string]any{"Replace": repl})
	ovPath := filepath.Join(dir, "ov.json")
	os.WriteFile(ovPath, ov, 0644)
	ctx, cancel := context.WithTimeout(context.Background(), 180*time.Second)
	defer cancel()
	cmd := exec.CommandContext(ctx, "go", "test", "-overlay", ovPath, "-vet=off", "-count=1", "-timeout", "60s", "-run", "^TestGovcReplay$", "-v", "./"+rel)
	cmd.Dir = repo
	var env []string
	for _, e := range os.Environ() {
		if strings.HasPrefix(e, "GOSUMDB=") || strings.HasPrefix(e, "GOTOOLCHAIN=") || strings.HasPrefix(e, "GOFLAGS=") {
			continue
		}
		env = append(env, e)
	}
	cmd.Env = append(env, "GOFLAGS=-mod=mod", "GOPROXY=off", "GOTOOLCHAIN=auto")
	out, err := cmd.CombinedOutput()
	s := string(out)
	if len(s) > 4000 {
		s = s[:4000]
	}
	return s, err
}

// cmdReplay re-runs the test stored in a replay file against the current tree.
func cmdReplay(args []string) int {
	if len(args) < 1 {
		fmt.Println("usage: govc replay <file.json>")
		return 2
	}
	data, err := os.ReadFile(args[0])
	if err != nil {
		fmt.Println(err)
		return 2
	}
	var rf ReplayFile
	if err := json.Unmarshal(data, &rf); err != nil {
		fmt.Println(err)
		return 2
	}
	fmt.Printf("obligation: %s\nsolver: %s -> %s\nmodel: %s\n", rf.Obligation, rf.Solver, rf.Result, rf.Model)
	if rf.TestFile == "" {
		fmt.Println("no concrete replay recorded for this obligation (no-failing-input-found); re-run the check to re-decide it")
		return 1
	}
	out, _ := runReplayTest(envOr("VERIF_REPO", "/repo"), rf.Pkg, rf.TestFile)
	fmt.Println(out)
	fmt.Println("recorded verdict:", rf.Replay)
	return 1
}
