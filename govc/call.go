package main

import (
	"fmt"
	"go/constant"
	"go/token"
	"go/types"
	"strings"

	"golang.org/x/tools/go/ssa"
)

func calleeKey(f *ssa.Function) string {
	if f.Signature.Recv() != nil {
		return typeName(f.Signature.Recv().Type()) + "." + f.Name()
	}
	if f.Parent() != nil { // anonymous function: Outer$1
		return f.Name()
	}
	return f.Name()
}

func fnPkgPath(f *ssa.Function) string {
	if f.Pkg != nil {
		return f.Pkg.Pkg.Path()
	}
	if f.Signature.Recv() != nil {
		t := f.Signature.Recv().Type()
		if p, ok := t.(*types.Pointer); ok {
			t = p.Elem()
		}
		if n, ok := t.(*types.Named); ok && n.Obj().Pkg() != nil {
			return n.Obj().Pkg().Path()
		}
	}
	if f.Object() != nil && f.Object().Pkg() != nil {
		return f.Object().Pkg().Path()
	}
	return ""
}

func fullKey(f *ssa.Function) string { return fnPkgPath(f) + "." + calleeKey(f) }

// contractFor finds the contract that governs a call, or nil.
func (g *Gen) contractFor(call *ssa.CallCommon) *Contract {
	if call.IsInvoke() {
		t := types.Unalias(call.Value.Type())
		if n, ok := t.(*types.Named); ok {
			pkg := ""
			if n.Obj().Pkg() != nil {
				pkg = n.Obj().Pkg().Path() + "."
			}
			return g.cs.ByKey[pkg+n.Obj().Name()+"."+call.Method.Name()]
		}
		return nil
	}
	callee := call.StaticCallee()
	if callee == nil {
		return nil
	}
	return g.cs.ByKey[fullKey(callee)]
}

func (g *Gen) canInline(callee *ssa.Function) bool {
	if callee.Blocks == nil || hasLoop(callee) {
		return false
	}
	return g.inlineSet[calleeKey(callee)] || g.inlineSet[callee.Name()]
}

func (g *Gen) isSkippable(call *ssa.CallCommon) bool { return false }

// calleeMatches: a callpre / ghostset / observe clause names its callee as Func, Type.Method or,
// package-qualified, pkg.Func / pkg.Type.Method. Every clause that matched a call is recorded, so that
// a clause that binds to no call at all is reported instead of being vacuously true.
func (g *Gen) calleeMatches(kind string, idx int, want, dispName string, callee *ssa.Function) bool {
	ok := want == dispName
	if !ok && callee != nil && callee.Pkg != nil && want == callee.Pkg.Pkg.Name()+"."+dispName {
		ok = true
	}
	if ok {
		if g.clauseBound == nil {
			g.clauseBound = map[string]bool{}
		}
		g.clauseBound[fmt.Sprintf("%s#%d", kind, idx)] = true
	}
	return ok
}

// sigNames returns the parameter names of a call target in argument order (receiver first).
func sigNames(call *ssa.CallCommon) ([]string, []types.Type) {
	var names []string
	var tys []types.Type
	var sig *types.Signature
	if call.IsInvoke() {
		names = append(names, "recv")
		tys = append(tys, call.Value.Type())
		sig = call.Method.Type().(*types.Signature)
	} else {
		sig = call.Value.Type().Underlying().(*types.Signature)
		if callee := call.StaticCallee(); callee != nil {
			sig = callee.Signature
			if r := sig.Recv(); r != nil {
				names = append(names, r.Name())
				tys = append(tys, r.Type())
			}
		}
	}
	for i := 0; i < sig.Params().Len(); i++ {
		names = append(names, sig.Params().At(i).Name())
		tys = append(tys, sig.Params().At(i).Type())
	}
	return names, tys
}

func callResults(call *ssa.CallCommon) *types.Tuple {
	if call.IsInvoke() {
		return call.Method.Type().(*types.Signature).Results()
	}
	return call.Value.Type().Underlying().(*types.Signature).Results()
}

func (g *Gen) setResult(result ssa.Value, v Val) {
	if result != nil {
		g.regs[result] = v
	}
}

func (g *Gen) bufCell(st *State, v Val) (*ssa.Alloc, string, bool) {
	if v.Kind == "ptr" && v.Cell != nil {
		return v.Cell, "", true
	}
	if v.Kind == "fieldcell" {
		return v.Cell, v.Idx, true
	}
	return nil, "", false
}

func (g *Gen) bufGet(st *State, v Val) (Val, bool) {
	c, path, ok := g.bufCell(st, v)
	if !ok {
		return Val{}, false
	}
	cv := st.cells[c]
	if path != "" {
		cv = getPath(cv, strings.Split(path, "."))
	}
	return cv, cv.Len != ""
}

func (g *Gen) bufSet(st *State, v Val, nv Val) {
	c, path, _ := g.bufCell(st, v)
	if path != "" {
		st.cells[c] = setPath(st.cells[c], strings.Split(path, "."), nv)
	} else {
		st.cells[c] = nv
	}
}

// appendSeq appends the elements of b to value-form buffer cur.
func (g *Gen) appendSeq(st *State, cur, b Val) Val {
	var k int
	if _, err := fmt.Sscan(b.Len, &k); err == nil && k <= 32 {
		arr := g.arr(st, cur)
		for j := 0; j < k; j++ {
			arr = fmt.Sprintf("(store %s (+ %s %s %d) (select %s (+ %s %d)))", arr, cur.Off, cur.Len, j, g.arr(st, b), b.Off, j)
		}
		return Val{T: g.def("buf", "(Array Int Int)", arr), Len: g.def("bl", "Int", fmt.Sprintf("(+ %s %d)", cur.Len, k)), Off: cur.Off, Kind: "slice"}
	}
	arr := g.seqJoin(st, "buf", g.arr(st, cur), cur.Off, cur.Len, g.arr(st, b), b.Off, b.Len, cur.Off)
	return Val{T: arr, Len: g.def("bl", "Int", fmt.Sprintf("(+ %s %s)", cur.Len, b.Len)), Off: cur.Off, Kind: "slice"}
}

func (g *Gen) builtin(fn *ssa.Function, st *State, bi *ssa.Builtin, call *ssa.CallCommon, result ssa.Value, pos token.Pos) {
	switch bi.Name() {
	case "len":
		a := g.val(st, call.Args[0])
		switch {
		case a.Kind == "map":
			l := g.newSym("maplen", "Int")
			g.assume(st, fmt.Sprintf("(and (<= 0 %s) (<= %s %s))", l, l, maxLen))
			g.setResult(result, intV(l))
		case a.Len != "":
			g.setResult(result, intV(a.Len))
		case a.Kind == "int" && g.opaqueStr:
			e := fmt.Sprintf("(%s %s)", g.uf("strlen", 1, "Int"), a.T)
			g.assume(st, fmt.Sprintf("(and (<= 0 %s) (<= %s %s) (= (%s 0) 0))", e, e, maxLen, g.uf("strlen", 1, "Int")))
			g.setResult(result, intV(e))
		default:
			panic(oos("len of " + a.Kind))
		}
	case "cap":
		a := g.val(st, call.Args[0])
		c := g.newSym("cap", "Int")
		g.assume(st, fmt.Sprintf("(and (<= %s %s) (<= %s %s))", a.Len, c, c, maxLen))
		g.setResult(result, intV(c))
	case "ssa:deferstack":
		g.setResult(result, Val{Kind: "opaque", T: "0"})
	case "ssa:wrapnilchk":
		g.setResult(result, g.val(st, call.Args[0]))
	case "min", "max":
		a, b := g.val(st, call.Args[0]), g.val(st, call.Args[1])
		op := "<="
		if bi.Name() == "max" {
			op = ">="
		}
		g.setResult(result, intV(g.def("mm", "Int", fmt.Sprintf("(ite (%s %s %s) %s %s)", op, a.T, b.T, a.T, b.T))))
	case "copy":
		dst, src := g.val(st, call.Args[0]), g.val(st, call.Args[1])
		if dst.Ref == "" {
			panic(oos("copy into a value-form sequence"))
		}
		n := g.def("cpn", "Int", fmt.Sprintf("(ite (<= %s %s) %s %s)", dst.Len, src.Len, dst.Len, src.Len))
		g.frameElemStore(st, dst.Ref, pos)
		if stt, el, ok := structElem(call.Args[0].Type()); ok {
			// slice of structs: every per-field array is moved (memmove semantics: all source elements are
			// read from the state before the copy, so overlapping ranges are handled correctly)
			var keys [][2]string
			structFieldKeys(typeName(el), stt, &keys)
			for _, k := range keys {
				isB := k[1] == "bool"
				srt, inner := hsfSortInt, "(Array Int Int)"
				if isB {
					srt, inner = hsfSortBool, "(Array Int Bool)"
				}
				cur := g.hsfGet(st, k[0], isB)
				na := g.newSym("copiedf", inner)
				q := "k!cp"
				g.assume(st, fmt.Sprintf("(forall ((%s Int)) (! (= (select %s %s) (ite (and (<= %s %s) (< %s (+ %s %s))) (select (select %s %s) (+ %s (- %s %s))) (select (select %s %s) %s))) :pattern ((select %s %s))))",
					q, na, q, dst.Off, q, q, dst.Off, n, cur, zeroRef(src.Ref), src.Off, q, dst.Off, cur, dst.Ref, q, na, q))
				st.hsf[k[0]] = g.def("Hsf", srt, fmt.Sprintf("(store %s %s %s)", cur, dst.Ref, na))
			}
			g.setResult(result, intV(n))
			return
		}
		na := g.newSym("copied", "(Array Int Int)")
		q := "k!cp"
		g.assume(st, fmt.Sprintf("(forall ((%s Int)) (= (select %s %s) (ite (and (<= %s %s) (< %s (+ %s %s))) (select %s (+ %s (- %s %s))) (select %s %s))))",
			q, na, q, dst.Off, q, q, dst.Off, n, g.arr(st, src), src.Off, q, dst.Off, g.arr(st, dst), q))
		g.setHs(st, dst.Ref, na)
		g.setResult(result, intV(n))
	case "append":
		a := g.val(st, call.Args[0])
		b := g.val(st, call.Args[1])
		if g.opaqueStr && b.Kind == "int" && isStringType(call.Args[1].Type()) {
			// append(bytes, s...) with an opaque string: its bytes are strbyte(s, k), its length strlen(s)
			arr := g.newSym("strbytes", "(Array Int Int)")
			sl := fmt.Sprintf("(%s %s)", g.uf("strlen", 1, "Int"), b.T)
			g.assume(st, fmt.Sprintf("(forall ((k!sb Int)) (! (= (select %s k!sb) (%s %s k!sb)) :pattern ((select %s k!sb))))", arr, g.uf("strbyte", 2, "Int"), b.T, arr))
			b = Val{T: arr, Len: sl, Off: "0", Kind: "str"}
		}
		r := g.freshRef(st)
		if stt, el, ok := structElem(call.Args[0].Type()); ok {
			// slice of structs: copy every field array; the result starts at offset 0 of a fresh store
			g.copyStructElems(st, el, stt, r, a, b)
			nl := g.def("len", "Int", fmt.Sprintf("(+ %s %s)", a.Len, b.Len))
			g.setResult(result, Val{Ref: r, Off: "0", Len: nl, Kind: "slice", Ty: call.Args[0].Type()})
			return
		}
		var k int
		if _, err := fmt.Sscan(b.Len, &k); err != nil || k > 32 {
			na := g.seqJoin(st, "appended", g.arr(st, a), a.Off, a.Len, g.arr(st, b), b.Off, b.Len, "0")
			g.setHs(st, r, na)
			nl := g.def("len", "Int", fmt.Sprintf("(+ %s %s)", a.Len, b.Len))
			g.safety(st, "appendlen", pos, fmt.Sprintf("(<= %s %s)", nl, maxInt))
			g.setResult(result, Val{Ref: r, Off: "0", Len: nl, Kind: "slice", Ty: call.Args[0].Type()})
			return
		}
		na := g.arr(st, a)
		for j := 0; j < k; j++ {
			na = fmt.Sprintf("(store %s (+ %s %s %d) (select %s (+ %s %d)))", na, a.Off, a.Len, j, g.arr(st, b), b.Off, j)
		}
		g.setHs(st, r, na)
		g.setResult(result, Val{Ref: r, Off: a.Off, Len: g.def("len", "Int", fmt.Sprintf("(+ %s %d)", a.Len, k)), Kind: "slice", Ty: call.Args[0].Type()})
	case "delete":
		m := g.val(st, call.Args[0])
		k := g.val(st, call.Args[1])
		if m.Kind != "map" || st.mdom[m.Ref] == "" {
			panic(oos("delete on a map that is not modelled"))
		}
		st.mdom[m.Ref] = g.def("md", "(Array Int Bool)", fmt.Sprintf("(store %s %s false)", st.mdom[m.Ref], k.T))
	case "recover":
		g.setResult(result, Val{T: g.newSym("recovered", "Int"), Kind: "err"})
	case "print", "println":
	default:
		panic(oos("builtin " + bi.Name()))
	}
}

// stdSpecial models a few stdlib calls directly on value-form buffers. Returns true when handled.
func (g *Gen) stdSpecial(st *State, name string, call *ssa.CallCommon, result ssa.Value, pos token.Pos) bool {
	switch name {
	case "(*bytes.Buffer).WriteByte", "(*strings.Builder).WriteByte":
		r, ok := bufRef(g.val(st, call.Args[0]))
		if !ok {
			return false
		}
		g.bufAppendByte(st, r, g.val(st, call.Args[1]).T)
		g.setResult(result, Val{T: "0", Kind: "err"})
		return true
	case "(*bytes.Buffer).WriteString", "(*strings.Builder).WriteString", "(*bytes.Buffer).Write", "(*strings.Builder).Write":
		r, ok := bufRef(g.val(st, call.Args[0]))
		s := g.val(st, call.Args[1])
		if !ok || s.Len == "" {
			return false
		}
		g.bufAppendSeq(st, r, s)
		g.setResult(result, Val{Kind: "tuple", Tup: []Val{intV(s.Len), {T: "0", Kind: "err"}}})
		return true
	case "(*bytes.Buffer).WriteRune", "(*strings.Builder).WriteRune":
		// UTF-8 encoding of a rune: an ASCII rune is one byte (itself); every other rune becomes 1..4
		// bytes that are all >= 0x80 (negative or out-of-range runes are written as U+FFFD)
		r, ok := bufRef(g.val(st, call.Args[0]))
		if !ok {
			return false
		}
		rv := g.val(st, call.Args[1])
		n := g.newSym("runelen", "Int")
		data := Val{T: g.newSym("runebytes", "(Array Int Int)"), Len: n, Off: "0", Kind: "slice"}
		g.assume(st, fmt.Sprintf("(ite (and (<= 0 %s) (< %s 128)) (and (= %s 1) (= (select %s 0) %s)) (and (<= 1 %s) (<= %s 4) (forall ((k!wr Int)) (=> (and (<= 0 k!wr) (< k!wr %s)) (and (<= 128 (select %s k!wr)) (<= (select %s k!wr) 255))))))", rv.T, rv.T, n, data.T, rv.T, n, n, n, data.T, data.T))
		g.bufAppendSeq(st, r, data)
		g.setResult(result, Val{Kind: "tuple", Tup: []Val{intV(n), {T: "0", Kind: "err"}}})
		g.trustedUsed["WriteRune: an ASCII rune is written as itself, any other rune as 1..4 bytes >= 0x80"] = true
		return true
	case "(*bytes.Buffer).Bytes":
		r, ok := bufRef(g.val(st, call.Args[0]))
		if !ok {
			return false
		}
		g.setResult(result, Val{Ref: r, Len: g.bufLen(st, r), Off: "0", Kind: "slice"})
		return true
	case "(*bytes.Buffer).String", "(*strings.Builder).String":
		r, ok := bufRef(g.val(st, call.Args[0]))
		if !ok || g.opaqueStr {
			return false
		}
		g.setResult(result, Val{T: fmt.Sprintf("(select %s %s)", g.hsGet(st), r), Len: g.bufLen(st, r), Off: "0", Kind: "str"})
		return true
	case "(*bytes.Buffer).Len", "(*strings.Builder).Len":
		r, ok := bufRef(g.val(st, call.Args[0]))
		if !ok {
			return false
		}
		g.setResult(result, intV(g.bufLen(st, r)))
		return true
	case "(*strings.Builder).Grow", "(*bytes.Buffer).Grow":
		_, ok := bufRef(g.val(st, call.Args[0]))
		return ok
	case "errors.Join":
		a := g.val(st, call.Args[0])
		var k int
		if _, err := fmt.Sscan(a.Len, &k); err == nil && a.Ref != "" {
			var nz []string
			for j := 0; j < k; j++ {
				nz = append(nz, fmt.Sprintf("(= (select %s (+ %s %d)) 0)", g.arr(st, a), a.Off, j))
			}
			r := g.newSym("joined", "Int")
			g.assume(st, fmt.Sprintf("(= (= %s 0) (and true %s))", r, strings.Join(nz, " ")))
			g.setResult(result, Val{T: r, Kind: "err"})
			g.trustedUsed["errors.Join: result is nil iff every argument is nil; no panic"] = true
			return true
		}
	case "errors.New", "fmt.Errorf":
		r := g.newSym("newerr", "Int")
		g.assume(st, fmt.Sprintf("(not (= %s 0))", r))
		g.notSentinel(st, r) // a newly created error value is none of the package-level sentinels
		g.setResult(result, Val{T: r, Kind: "err"})
		g.trustedUsed[name+": returns a non-nil error; no panic"] = true
		return true
	case modulePath + "/pkg/pdfcpu/fault.Catch":
		// recover() is nil unless the function is panicking: on the normal path Catch does nothing; on
		// the exceptional path it may store the panic in *err (and stop a fault.Panic - the analysis
		// keeps treating that exit as exceptional, which only adds obligations).
		if pv := st.ghost["$panicking"]; pv.T != "false" {
			a := g.val(st, call.Args[0])
			if a.Kind == "ptr" && a.Cell != nil {
				st.cells[a.Cell] = g.symFor(a.Cell.Type().(*types.Pointer).Elem(), "caught", st)
			}
		}
		g.trustedUsed["fault.Catch: no effect unless panicking (recover() == nil); never panics on the normal path"] = true
		return true
	case "io.Copy", "io.CopyN":
		return g.ioCopy(st, name, call, result)
	case "crypto/md5.New", "crypto/sha1.New", "crypto/sha256.New", "crypto/sha512.New384", "crypto/sha512.New":
		// a hash object is a byte sink that records what has been written to it (hash.Hash.Write
		// appends, sink.go); the digest itself is a function of that record (Sum: unconstrained bytes)
		r := g.freshRef(st)
		g.setHs(st, r, emptyAr)
		st.heap[bufLenKey] = g.def("H", "(Array Int Int)", fmt.Sprintf("(store %s %s 0)", g.bufLenArr(st, false), r))
		if g.hashSize == nil {
			g.hashSize = map[string]int{}
		}
		g.hashSize[r] = map[string]int{"crypto/md5.New": 16, "crypto/sha1.New": 20, "crypto/sha256.New": 32, "crypto/sha512.New384": 48, "crypto/sha512.New": 64}[name]
		g.setResult(result, Val{T: r, Kind: "err", Ty: result.Type()})
		g.trustedUsed[name+": returns a fresh hash object (modelled as the record of the bytes written to it)"] = true
		return true
	case "path/filepath.Join":
		// filepath.Join(a, b) with a literal argument list of two strings: the term pathJoin2(a, b)
		if g.opaqueStr {
			if inner, ok := g.varargInners(st, call.Args[0]); ok && len(inner) == 2 {
				a, b := g.val(st, inner[0]), g.val(st, inner[1])
				if a.Kind == "int" && b.Kind == "int" {
					g.setResult(result, Val{T: fmt.Sprintf("(%s %s %s)", g.uf("pathJoin2", 2, "Int"), a.T, b.T), Kind: "int"})
					return true
				}
			}
		}
		return false
	case "io.NewSectionReader":
		return g.newSectionReader(st, call, result)
	case "errors.Is":
		// errors.Is(err, os.ErrNotExist / os.ErrExist / other sentinel): a predicate of err per sentinel
		if u, ok := call.Args[1].(*ssa.UnOp); ok {
			if gl, ok := u.X.(*ssa.Global); ok {
				e := g.val(st, call.Args[0])
				tgt := g.val(st, call.Args[1])
				isX := g.uf("is"+gl.Name(), 1, "Bool")
				g.assume(st, fmt.Sprintf("(%s %s)", isX, tgt.T)) // the sentinel is an instance of itself
				r := fmt.Sprintf("(and (not (= %s 0)) (%s %s))", e.T, isX, e.T)
				g.setResult(result, boolV(g.def("errIs", "Bool", r)))
				g.trustedUsed["errors.Is(err, Sentinel) is the predicate isSentinel(err) (true for the sentinel itself, false for nil)"] = true
				return true
			}
		}
	case "strings.ContainsRune":
		if c, ok := call.Args[0].(*ssa.Const); ok {
			str := constant.StringVal(c.Value)
			r := g.val(st, call.Args[1])
			var ds []string
			for i := 0; i < len(str); i++ {
				if str[i] >= 0x80 {
					return false
				}
				ds = append(ds, fmt.Sprintf("(= %s %d)", r.T, str[i]))
			}
			g.setResult(result, Val{T: "(or false " + strings.Join(ds, " ") + ")", Kind: "bool"})
			g.trustedUsed["strings.ContainsRune on an ASCII constant: membership test"] = true
			return true
		}
	}
	return false
}

func (g *Gen) inlineCall(fn *ssa.Function, st *State, callee *ssa.Function, args []Val, bind []Val, result ssa.Value) {
	if g.depth > 8 {
		panic(oos("inline depth"))
	}
	g.depth++
	defer func() { g.depth-- }()
	for i, p := range callee.Params {
		g.regs[p] = args[i]
	}
	run := st.clone()
	for j, fvv := range callee.FreeVars {
		if j < len(bind) {
			run.fv[fvv] = bind[j]
		}
	}
	after, res := g.execFunc(callee, run, false, nil)
	if after == nil {
		g.assume(st, "false")
		g.setResult(result, g.symFor(callResultsOf(callee), "dead", st))
		return
	}
	*st = *after.clone()
	if result == nil {
		return
	}
	if len(res) == 1 {
		g.regs[result] = res[0]
	} else {
		g.regs[result] = Val{Kind: "tuple", Tup: res}
	}
}

func callResultsOf(f *ssa.Function) types.Type {
	r := f.Signature.Results()
	if r.Len() == 1 {
		return r.At(0).Type()
	}
	return r
}

func (g *Gen) callCommon(fn *ssa.Function, st *State, call *ssa.CallCommon, result ssa.Value, pos token.Pos) {
	if bi, ok := call.Value.(*ssa.Builtin); ok {
		g.builtin(fn, st, bi, call, result, pos)
		return
	}
	callee := call.StaticCallee()
	cc := g.contractFor(call)
	var specParams []string
	dispName := "call"
	var args []Val
	for _, a := range call.Args {
		args = append(args, g.val(st, a))
	}
	if call.IsInvoke() {
		args = append([]Val{g.val(st, call.Value)}, args...)
		dispName = call.Method.Name()
	}
	trySink := call.IsInvoke() && cc == nil // byte-sink methods are modelled after the callpre clauses saw the call
	if callee != nil {
		dispName = calleeKey(callee)
		if g.stdSpecial(st, callee.String(), call, result, pos) {
			return
		}
		if g.canInline(callee) { // an explicit `inline` wins over the callee's own contract
			g.inlineCall(fn, st, callee, args, nil, result)
			return
		}
	} else if !call.IsInvoke() {
		// call of a function value
		fv := g.val(st, call.Value)
		if fv.Kind == "closure" && fv.Fn != nil && fv.Fn.Blocks != nil && !hasLoop(fv.Fn) {
			g.inlineCall(fn, st, fv.Fn, args, fv.Bind, result)
			return
		}
		dispName = "funcvalue"
		if fv.FnSpec != "" {
			if specKey, ok := g.cs.FieldSpecs[fv.FnSpec]; ok {
				if bc := g.cs.ByKey[specKey]; bc != nil {
					cc = bc
					specParams = bc.Params
					dispName = fv.FnSpec
				}
			}
		}
	}
	names, tys := sigNames(call)
	if specParams != nil { // behaviour spec of a function value: parameters bind by position
		for i := range names {
			if i < len(specParams) {
				names[i] = specParams[i]
			}
		}
	}
	env := map[string]Val{}
	for k, v := range g.entryGhostEnv() {
		_ = k
		_ = v
	}
	top := fn == g.fn
	if g.c != nil { // observations also apply inside inlined helpers
		for oi, ob := range g.c.Observe {
			if g.calleeMatches("observe", oi, ob[0], dispName, callee) {
				for i, n := range names {
					if n == ob[1] && i < len(args) {
						st.ghost["$obs"] = args[i]
					}
				}
			}
		}
		for ci, cp := range g.c.CallPre {
			if g.calleeMatches("callpre", ci, cp[1], dispName, callee) {
				e2 := g.invEnv()
				for i, n := range names {
					if i < len(args) {
						e2["arg:"+n] = args[i]
					}
				}
				for i := range args { // positional names arg_0, arg_1, ... (calls of function values have no parameter names)
					e2[fmt.Sprintf("arg:%d", i)] = args[i]
				}
				// variadic call with a literal argument list: arg_va0, arg_va1, ... are the values passed
				if sig, ok := call.Value.Type().Underlying().(*types.Signature); ok && sig.Variadic() && len(call.Args) > 0 {
					if inner, ok := g.varargInners(st, call.Args[len(call.Args)-1]); ok {
						for i, iv := range inner {
							e2[fmt.Sprintf("arg:va%d", i)] = g.val(st, iv)
						}
					}
				}
				lbl := cp[0]
				if lbl == "" {
					lbl = fmt.Sprint(ci + 1)
				}
				// a clause that mentions a variable which is not in scope at this call (a loop variable, at a
				// call before the loop) does not apply to this call; it must still apply to some call
				goal, inScope := g.specInScope(st, cp[2], e2)
				if !inScope {
					delete(g.clauseBound, fmt.Sprintf("callpre#%d", ci))
					if g.clauseEval[fmt.Sprintf("callpre#%d", ci)] {
						g.clauseBound[fmt.Sprintf("callpre#%d", ci)] = true
					}
					continue
				}
				if g.clauseEval == nil {
					g.clauseEval = map[string]bool{}
				}
				g.clauseEval[fmt.Sprintf("callpre#%d", ci)] = true
				if g.cpReach != nil {
					g.cpReach[ci] = append(g.cpReach[ci], st.pc)
				}
				g.oblige(st, "callpre", fmt.Sprintf("callpre[%s](%s)#%d", lbl, dispName, g.ord("callpre."+lbl)), g.line(pos), goal)
			}
		}
	}
	// caller-side ghost assignments (`ghostset CALLEE :: $g = expr`), applied once the call's results exist
	applyGhostSets := func(res Val) {
		rt := callResults(call)
		if g.c != nil { // also inside deferred closures and inlined helpers of the function under contract
			for gi, gs := range g.c.GhostSet {
				if !g.calleeMatches("ghostset", gi, gs[0], dispName, callee) {
					continue
				}
				e2 := g.invEnv()
				for i, n := range names {
					if i < len(args) {
						e2["arg:"+n] = args[i]
					}
				}
				for i := 0; i < rt.Len(); i++ {
					rv := res
					if rt.Len() > 1 {
						rv = res.Tup[i]
					}
					if n := rt.At(i).Name(); n != "" && n != "_" {
						e2[n] = rv
						e2["$p:"+n] = Val{}
					}
					e2[fmt.Sprintf("res_%d", i)] = rv // positional result name (callees without named results)
					e2[fmt.Sprintf("$p:res_%d", i)] = Val{}
					if cc != nil && i < len(cc.Results) {
						e2[cc.Results[i]] = rv
						e2["$p:"+cc.Results[i]] = Val{}
					}
				}
				if sig, ok := call.Value.Type().Underlying().(*types.Signature); ok && sig.Variadic() && len(call.Args) > 0 {
					if inner, ok := g.varargInners(st, call.Args[len(call.Args)-1]); ok {
						for i, iv := range inner {
							e2[fmt.Sprintf("arg:va%d", i)] = g.val(st, iv)
						}
					}
				}
				p := &sp{toks: lex(gs[2]), g: g, st: st, env: e2, src: gs[2]}
				v := p.iff()
				if p.i != len(p.toks) {
					panic(specErr{"ghostset: trailing tokens in " + gs[2]})
				}
				st.ghost[gs[1]] = Val{T: v.T, Kind: v.Kind}
			}
		}
	}
	if trySink && g.sinkInvoke(st, call, args, result) {
		if result != nil {
			applyGhostSets(g.regs[result])
		}
		return
	}
	if callee != nil { // length model of the formatting functions, after the callpre clauses saw the call
		switch callee.String() {
		case "fmt.Sprintf":
			if g.fmtSprintf(st, call, result) {
				if result != nil {
					applyGhostSets(g.regs[result])
				}
				return
			}
		case "fmt.Fprintf":
			if g.fmtFprintf(st, call, result) {
				if result != nil {
					applyGhostSets(g.regs[result])
				}
				return
			}
		}
	}
	if cc != nil {
		if cc.Trusted {
			g.trustedUsed["assumed contract: "+cc.Key()] = true
		}
		saveT := g.specTypes
		g.specTypes = map[string]types.Type{}
		defer func() { g.specTypes = saveT }()
		for i, n := range names {
			if i < len(args) && n != "" && n != "_" {
				env[n] = args[i]
				env["old:"+n] = args[i]
				g.specTypes[n] = tys[i]
			}
		}
		k := g.ord("call." + dispName)
		skipReq := false
		if g.c != nil {
			for _, n := range g.c.NoReq {
				if n == dispName {
					skipReq = true
					g.trustedUsed["preconditions of "+dispName+" are not claimed at its calls in "+g.short+" (norequires: they belong to another property's model)"] = true
				}
			}
		}
		for i, r := range cc.Requires {
			if skipReq {
				continue // neither claimed nor assumed (assuming a false precondition would make the rest vacuous)
			}
			g.oblige(st, "pre", fmt.Sprintf("requires[%s](%s)#%d", clauseName(r, i), dispName, k), g.line(pos), g.spec(st, r.Expr, env))
		}
	}
	if (cc == nil || !cc.NoPanic) && top && g.lemma == nil && len(g.c.EnsPanic) > 0 {
		// exceptional exit of the callee
		pan := g.newSym("panics", "Bool")
		sp := st.clone()
		g.assume(sp, pan)
		sp.ghost["$panicking"] = Val{T: "true", Kind: "bool"}
		if cc == nil || !cc.Pure {
			g.havocByContract(sp, cc, env, args)
		}
		g.runDefers(fn, sp)
		k := g.ord("xcall." + dispName)
		for i, e := range g.c.EnsPanic {
			g.oblige(sp, "xpost", fmt.Sprintf("ensures_panic[%s]@%s#%d", clauseName(e, i), dispName, k), g.line(pos), g.spec(sp, e.Expr, g.env))
		}
		g.assume(st, not(pan))
	}
	var res Val
	rt := callResults(call)
	switch rt.Len() {
	case 0:
		res = Val{Kind: "tuple"}
	case 1:
		res = g.symFor(rt.At(0).Type(), "ret_"+dispName, st)
	default:
		res = g.symFor(rt, "ret_"+dispName, st)
	}
	if cc != nil && cc.Trusted && !strings.HasPrefix(cc.Pkg, modulePath) && !strings.HasPrefix(cc.Fn, modulePath) {
		// assumption (listed): standard-library calls do not return this module's sentinel errors
		g.foreignErrs(st, res)
	}
	{
		argRefs := map[string]bool{}
		for _, a := range args {
			valRefs(a, argRefs)
		}
		g.distinctFromFresh(st, res, argRefs)
		if cc == nil || !cc.Pure {
			for _, a := range args {
				g.markEscape(st, a)
			}
		}
	}
	if cc != nil && cc.Returns != "" {
		res = Val{T: cc.Returns, Kind: "int"}
	}
	if g.splitCallee != "" && g.splitCallee == dispName {
		// case split: this instance of the function is verified with the literal result
		res = Val{T: g.splitVal, Kind: "int"}
	}
	// entry-of-call snapshot for old() inside the callee's ensures
	preHs, preHeap, preGhost := g.hsGet(st), map[string]string{}, map[string]Val{}
	for k, v := range st.heap {
		preHeap[k] = v
	}
	for k, v := range st.ghost {
		preGhost[k] = v
	}
	preMdom, preMval := map[string]string{}, map[string]string{}
	for k, v := range st.mdom {
		preMdom[k] = v
	}
	for k, v := range st.mval {
		preMval[k] = v
	}
	if cc == nil || !cc.Pure {
		g.havocByContract(st, cc, env, args)
	}
	if cc != nil {
		for i := 0; i < rt.Len(); i++ {
			rv := res
			if rt.Len() > 1 {
				rv = res.Tup[i]
			}
			if n := rt.At(i).Name(); n != "" && n != "_" {
				env[n] = rv
			}
			if i < len(cc.Results) {
				env[cc.Results[i]] = rv
			}
		}
		saveEntry := g.swapEntry(preHs, preHeap, preGhost, preMdom, preMval)
		for _, e := range cc.Ensures {
			g.assume(st, g.spec(st, e.Expr, env))
		}
		g.freshAssume(st, cc, env)
		g.swapEntryBack(saveEntry)
	}
	if cc == nil {
		g.unmodelled["uncontracted call "+dispName+" (havoc, may panic)"] = true
	}
	applyGhostSets(res)
	g.setResult(result, res)
}

type entrySnap struct {
	hs    string
	heap  map[string]string
	ghost map[string]Val
	mdom  map[string]string
	mval  map[string]string
}

func (g *Gen) swapEntry(hs string, heap map[string]string, ghost map[string]Val, mdom, mval map[string]string) entrySnap {
	s := entrySnap{g.entryHs, g.entryHeap, g.entryGhost, g.entryMdom, g.entryMval}
	g.entryHs, g.entryHeap, g.entryGhost = hs, heap, ghost
	// entry map contents: keep the function-entry values for refs unknown at the call
	nd, nv := map[string]string{}, map[string]string{}
	for k, v := range s.mdom {
		nd[k] = v
	}
	for k, v := range s.mval {
		nv[k] = v
	}
	for k, v := range mdom {
		nd[k] = v
	}
	for k, v := range mval {
		nv[k] = v
	}
	g.entryMdom, g.entryMval = nd, nv
	return s
}

func (g *Gen) swapEntryBack(s entrySnap) {
	g.entryHs, g.entryHeap, g.entryGhost, g.entryMdom, g.entryMval = s.hs, s.heap, s.ghost, s.mdom, s.mval
}

func (g *Gen) entryGhostEnv() map[string]Val { return nil }

// havocByContract applies the frame of a callee: everything for an uncontracted callee, the
// `modifies` list for a contracted one.
func (g *Gen) havocByContract(st *State, cc *Contract, env map[string]Val, args []Val) {
	havocArgCells := func() {
		for _, a := range args {
			if a.Kind == "ptr" && a.Cell != nil {
				if _, ok := st.cells[a.Cell]; ok {
					st.cells[a.Cell] = g.symFor(a.Cell.Type().(*types.Pointer).Elem(), a.Cell.Comment+"_c", st)
				}
			}
			if a.Kind == "fieldcell" {
				old := getPath(st.cells[a.Cell], strings.Split(a.Idx, "."))
				if old.Ty != nil {
					st.cells[a.Cell] = setPath(st.cells[a.Cell], strings.Split(a.Idx, "."), g.symFor(old.Ty, "fld_c", st))
				}
			}
		}
	}
	if cc == nil {
		g.havocAllFields(st)
		g.havocHs(st, nil, true)
		g.havocMaps(st)
		kept := map[string]Val{}
		if g.c != nil {
			for _, k := range g.c.Keeps {
				if strings.HasPrefix(k, "$") {
					kept[k] = st.ghost[k]
				}
			}
			if len(kept) > 0 {
				g.trustedUsed["callees of "+g.short+" that have no contract are assumed not to change "+strings.Join(g.c.Keeps, " ")+" (they write only through the writer they are given)"] = true
			}
		}
		g.havocAllGhost(st)
		for k, v := range kept {
			st.ghost[k] = v
		}
		havocArgCells()
		keptGlob := map[string]bool{}
		if g.c != nil {
			for _, k := range g.c.Keeps { // `keeps name` also names package variables the callees do not assign
				if !strings.HasPrefix(k, "$") {
					keptGlob[k] = true
				}
			}
		}
		for _, k := range sortedKeys(g.globInit) {
			if keptGlob[k[strings.LastIndex(k, ".")+1:]] {
				continue
			}
			if v := g.globInit[k]; v.Kind == "int" || v.Kind == "bool" || v.Kind == "opaque" {
				if v.Ty != nil {
					st.globs[k] = g.symFor(v.Ty, k+"_c", st) // a callee without contract may assign package variables
				} else if v.Kind == "bool" {
					st.globs[k] = Val{T: g.newSym(k+"_c", "Bool"), Kind: "bool"}
				} else {
					st.globs[k] = Val{T: g.newSym(k+"_c", "Int"), Kind: v.Kind}
				}
			}
		}
		return
	}
	if cc.Nondet {
		havocArgCells()
	}
	for _, m := range cc.Modifies {
		switch {
		case strings.HasPrefix(m, "$"):
			g.havocGhost(st, m)
		case m == "mem":
			g.havocHs(st, nil, true)
		case strings.HasPrefix(m, "mem("):
			name := strings.TrimSuffix(strings.TrimPrefix(m, "mem("), ")")
			v, ok := env[name]
			if !ok || v.Ref == "" {
				panic(specErr{"modifies mem(" + name + ") of " + cc.Fn + ": not a slice argument"})
			}
			g.havocHs(st, []string{v.Ref}, false)
		case strings.HasPrefix(m, "sink("):
			// only the record of the byte sink behind the named writer argument changes
			name := strings.TrimSuffix(strings.TrimPrefix(m, "sink("), ")")
			v, ok := env[name]
			r, isBuf := bufRef(v)
			if !ok || !isBuf {
				panic(specErr{"modifies sink(" + name + ") of " + cc.Fn + ": not a writer argument"})
			}
			g.havocHs(st, []string{r}, false)
			nl := g.newSym("sinklen", "Int")
			g.assume(st, fmt.Sprintf("(and (<= 0 %s) (<= %s %s))", nl, nl, maxLen))
			st.heap[bufLenKey] = g.def("H", "(Array Int Int)", fmt.Sprintf("(store %s %s %s)", g.bufLenArr(st, false), r, nl))
		case strings.HasPrefix(m, "map("):
			g.havocMaps(st)
		case strings.HasPrefix(m, "cell("):
			havocArgCells()
		case m == "heap":
			g.havocAllFields(st)
			g.havocHs(st, nil, true)
			g.havocMaps(st)
		default:
			if _, ok := g.heapSort[m]; !ok {
				srt, known := fieldSorts[m]
				if !known || srt == "?" {
					panic(specErr{"modifies " + m + " of " + cc.Fn + ": unknown or ambiguous field"})
				}
				g.heapSort[m] = srt
			}
			g.havocFieldDeep(st, m)
		}
	}
}

// specInScope evaluates a clause; ok=false if it mentions a name that is not in scope here.
func (g *Gen) specInScope(st *State, src string, env map[string]Val) (goal string, ok bool) {
	defer func() {
		if r := recover(); r != nil {
			if e, isSpec := r.(specErr); isSpec && strings.HasPrefix(e.msg, "spec: unknown name") {
				goal, ok = "", false
				return
			}
			panic(r)
		}
	}()
	return g.spec(st, src, env), true
}
