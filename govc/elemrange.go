package main

import (
	"fmt"
	"go/types"
)

// Element range facts for slices of narrow integer types (bytes etc.): every element of the backing
// array of such a slice is within its type's range. Needed for quantified specifications, where the
// per-read range facts do not reach.

func elemRangeFact(hs, ref string, rg [2]string) string {
	return fmt.Sprintf("(forall ((k!er Int)) (and (<= %s (select (select %s %s) k!er)) (<= (select (select %s %s) k!er) %s)))", rg[0], hs, ref, hs, ref, rg[1])
}

func (g *Gen) noteElemRange(st *State, ref string, elem types.Type) {
	lo, hi, ok := rangeOf(elem)
	if !ok || is64(elem) {
		return
	}
	if g.refRange == nil {
		g.refRange = map[string][2]string{}
	}
	g.refRange[ref] = [2]string{lo, hi}
	g.assume(st, elemRangeFact(g.hsGet(st), ref, [2]string{lo, hi}))
}

func isStringType(t types.Type) bool {
	b, ok := t.Underlying().(*types.Basic)
	return ok && b.Info()&types.IsString != 0
}
