package main

import (
	"fmt"
	"go/types"
	"strconv"
	"strings"
	"unicode"
)

// Recursive-descent parser for the spec language -> SMT term.
// Grammar (lowest to highest): iff(<==>) imp(==>, right assoc) cond(c ? a : b) or(||) and(&&)
// cmp(== != < <= > >=) add(+ -) mul(* / %) unary(! -) postfix([i], [i:j]) primary
type sp struct {
	toks []string
	i    int
	g    *Gen
	st   *State
	env  map[string]Val
	src  string
	ante string
}

type specErr struct{ msg string }

func lex(s string) []string {
	var out []string
	i := 0
	for i < len(s) {
		c := rune(s[i])
		switch {
		case unicode.IsSpace(c):
			i++
		case unicode.IsLetter(c) || c == '_' || c == '$' || c == '#':
			j := i + 1
			for j < len(s) && (unicode.IsLetter(rune(s[j])) || unicode.IsDigit(rune(s[j])) || s[j] == '_' || s[j] == '.') {
				j++
			}
			out = append(out, s[i:j])
			i = j
		case unicode.IsDigit(c):
			j := i
			for j < len(s) && (unicode.IsDigit(rune(s[j])) || s[j] == 'x' || (s[j] >= 'a' && s[j] <= 'f') || (s[j] >= 'A' && s[j] <= 'F')) {
				j++
			}
			out = append(out, s[i:j])
			i = j
		case c == '\'':
			j := strings.IndexByte(s[i+1:], '\'')
			if j == 0 && i+2 < len(s) && s[i+2] == '\'' { // '''
				j = 1
			}
			lit := s[i : i+j+2]
			r, _, _, err := strconv.UnquoteChar(lit[1:len(lit)-1], '\'')
			if err != nil {
				panic(specErr{"bad char literal " + lit + " in " + s})
			}
			out = append(out, strconv.Itoa(int(r)))
			i += j + 2
		case c == '"':
			j := i + 1
			for j < len(s) && s[j] != '"' {
				if s[j] == '\\' {
					j++
				}
				j++
			}
			out = append(out, s[i:j+1])
			i = j + 1
		default:
			for _, op := range []string{"<==>", "==>", "::", "&&", "||", "==", "!=", "<=", ">="} {
				if strings.HasPrefix(s[i:], op) {
					out = append(out, op)
					i += len(op)
					goto next
				}
			}
			out = append(out, string(c))
			i++
		next:
		}
	}
	return out
}

func (p *sp) peek() string {
	if p.i < len(p.toks) {
		return p.toks[p.i]
	}
	return ""
}
func (p *sp) next() string { t := p.peek(); p.i++; return t }
func (p *sp) expect(t string) {
	if got := p.next(); got != t {
		panic(specErr{fmt.Sprintf("spec: expected %q got %q at token %d in %q", t, got, p.i, p.src)})
	}
}

func boolV(t string) Val { return Val{T: t, Kind: "bool"} }
func intV(t string) Val  { return Val{T: t, Kind: "int"} }

func (p *sp) iff() Val {
	a := p.imp()
	for p.peek() == "<==>" {
		p.next()
		b := p.imp()
		p.ante = ""
		a = boolV(fmt.Sprintf("(= %s %s)", a.T, b.T))
	}
	return a
}
func (p *sp) imp() Val {
	start := p.i
	a := p.cond()
	if p.peek() == "==>" {
		if start == 0 {
			p.ante = a.T // antecedent of a clause that is an implication at top level
		}
		p.next()
		b := p.imp()
		return boolV(fmt.Sprintf("(=> %s %s)", a.T, b.T))
	}
	return a
}
func (p *sp) cond() Val {
	a := p.or()
	if p.peek() == "?" {
		p.next()
		b := p.cond()
		p.expect(":")
		c := p.cond()
		r := b
		r.T = fmt.Sprintf("(ite %s %s %s)", a.T, b.T, c.T)
		return r
	}
	return a
}
func (p *sp) or() Val {
	a := p.and()
	for p.peek() == "||" {
		p.next()
		b := p.and()
		a = boolV(fmt.Sprintf("(or %s %s)", a.T, b.T))
	}
	return a
}
func (p *sp) and() Val {
	a := p.cmp()
	for p.peek() == "&&" {
		p.next()
		b := p.cmp()
		a = boolV(fmt.Sprintf("(and %s %s)", a.T, b.T))
	}
	return a
}
func (p *sp) cmp() Val {
	a := p.add()
	for {
		op := p.peek()
		switch op {
		case "==", "!=", "<", "<=", ">", ">=":
			p.next()
			b := p.add()
			var e string
			if op == "==" || op == "!=" {
				e = p.g.eqVals(p.st, a, b)
				if op == "!=" {
					e = "(not " + e + ")"
				}
			} else {
				e = fmt.Sprintf("(%s %s %s)", op, a.T, b.T)
			}
			a = boolV(e)
		default:
			return a
		}
	}
}
func (p *sp) add() Val {
	a := p.mul()
	for p.peek() == "+" || p.peek() == "-" {
		op := p.next()
		b := p.mul()
		a = intV(fmt.Sprintf("(%s %s %s)", op, a.T, b.T))
	}
	return a
}
func (p *sp) mul() Val {
	a := p.unary()
	for p.peek() == "*" || p.peek() == "/" || p.peek() == "%" {
		op := p.next()
		b := p.unary()
		smt := map[string]string{"*": "*", "/": "div", "%": "mod"}[op]
		a = intV(fmt.Sprintf("(%s %s %s)", smt, a.T, b.T))
	}
	return a
}
func (p *sp) unary() Val {
	if p.peek() == "!" {
		p.next()
		a := p.unary()
		return boolV("(not " + a.T + ")")
	}
	if p.peek() == "-" {
		p.next()
		a := p.unary()
		return intV("(- " + a.T + ")")
	}
	return p.postfix()
}
func (p *sp) postfix() Val {
	a := p.primary()
	for p.peek() == "[" || p.peek() == "." {
		if p.next() == "." { // field of a struct element: s[k].f
			fname := p.next()
			if a.Kind == "ptr" && a.Cell != nil && a.Ty == nil {
				a.Ty = a.Cell.Type()
			}
			if (a.Kind == "opaque" || a.Kind == "ptr") && a.Ty != nil {
				if _, isPtr := a.Ty.Underlying().(*types.Pointer); isPtr { // field path of a typed pointer value
					env2 := map[string]Val{}
					for k, v := range p.env {
						env2[k] = v
					}
					env2["$cast"] = a
					a = p.g.fieldOf(p.st, "$cast", fname, env2)
					continue
				}
			}
			a = p.g.specElemField(p.st, a, fname, p.src)
			continue
		}
		if p.peek() == ":" { // a[:hi]
			p.next()
			hi := p.iff()
			p.expect("]")
			a.Len = hi.T
			continue
		}
		i := p.iff()
		if p.peek() == ":" { // a[lo:hi] or a[lo:]
			p.next()
			hiT := a.Len
			if p.peek() != "]" {
				hiT = p.iff().T
			}
			p.expect("]")
			a.Off = fmt.Sprintf("(+ %s %s)", a.Off, i.T)
			a.Len = fmt.Sprintf("(- %s %s)", hiT, i.T)
			continue
		}
		p.expect("]")
		switch a.Kind {
		case "map":
			mv := p.st.mval[a.Ref]
			if a.Heap == "old" {
				mv = p.g.entryMval[a.Ref]
			}
			k := "int"
			if p.g.mapValKind[a.Ref] == "garrbool" {
				k = "bool"
			}
			a = Val{T: fmt.Sprintf("(select %s %s)", mv, i.T), Kind: k}
		case "garrbool":
			a = boolV(fmt.Sprintf("(select %s %s)", a.T, i.T))
		case "garrint":
			a = intV(fmt.Sprintf("(select %s %s)", a.T, i.T))
		default:
			if stt, el, ok := structElem(a.Ty); ok && a.Ref != "" { // element of a slice of structs
				_ = stt
				ev := Val{Kind: "elemstruct", Ref: a.Ref, Idx: fmt.Sprintf("(+ %s %s)", a.Off, i.T), Ty: el, Heap: a.Heap}
				a = ev
				continue
			}
			if a.Kind == "int" && p.g.opaqueStr && a.Len == "" { // byte of an opaque string
				a = intV(fmt.Sprintf("(%s %s %s)", p.g.uf("strbyte", 2, "Int"), a.T, i.T))
				continue
			}
			if a.Len == "" && a.Ref == "" {
				panic(specErr{"spec: indexing a non-sequence in " + p.src})
			}
			var elTy types.Type
			if a.Ty != nil {
				if sl, ok := a.Ty.Underlying().(*types.Slice); ok {
					elTy = sl.Elem()
				}
			}
			wasOld := a.Heap
			a = intV(fmt.Sprintf("(select %s (+ %s %s))", p.g.arr(p.st, a), a.Off, i.T))
			if elTy != nil {
				if _, isPtr := elTy.Underlying().(*types.Pointer); isPtr { // element of a slice of pointers
					a = Val{T: a.T, Kind: "opaque", Ty: elTy, Heap: wasOld}
				}
			}
		}
	}
	return a
}

func parseIntLit(t string) (string, bool) {
	if len(t) == 0 || !unicode.IsDigit(rune(t[0])) {
		return "", false
	}
	if strings.HasPrefix(t, "0x") || strings.HasPrefix(t, "0X") {
		n, err := strconv.ParseUint(t[2:], 16, 64)
		if err != nil {
			panic(specErr{"bad literal " + t})
		}
		return strconv.FormatUint(n, 10), true
	}
	return t, true
}

func (p *sp) args() []Val {
	var args []Val
	for p.peek() != ")" {
		args = append(args, p.iff())
		if p.peek() == "," {
			p.next()
		}
	}
	p.expect(")")
	return args
}

func (p *sp) primary() Val {
	t := p.next()
	if lit, ok := parseIntLit(t); ok {
		return intV(lit)
	}
	switch t {
	case "len", "old", "has", "ref", "off", "sliceof", "bufof", "abs", "min", "max", "deref":
		if p.peek() != "(" { // a program variable that happens to share a builtin's name
			if v, ok := p.env[t]; ok {
				return v
			}
			return p.g.lookupName(p.st, t, p.env)
		}
	}
	switch {
	case t == "(":
		a := p.iff()
		p.expect(")")
		return a
	case strings.HasPrefix(t, `"`):
		s, err := strconv.Unquote(t)
		if err != nil {
			panic(specErr{"bad string literal " + t})
		}
		return p.g.strConst(s)
	case t == "forall" || t == "exists":
		var vars []string
		for p.peek() != "::" {
			v := p.next()
			if v != "," {
				vars = append(vars, v)
			}
		}
		p.expect("::")
		env2 := map[string]Val{}
		for k, x := range p.env {
			env2[k] = x
		}
		var binders []string
		for _, v := range vars {
			env2[v] = intV(v + "!q")
			env2["$p:"+v] = Val{} // bound variables shadow program variables of the same name
			binders = append(binders, "("+v+"!q Int)")
		}
		save := p.env
		p.env = env2
		body := p.iff()
		p.env = save
		bt := body.T
		for i, v := range vars {
			nv, nb := reindexQuant(v+"!q", bt)
			bt = nb
			binders[i] = "(" + nv + " Int)"
		}
		return boolV(fmt.Sprintf("(%s (%s) %s)", t, strings.Join(binders, " "), bt))
	case t == "len":
		p.expect("(")
		a := p.iff()
		p.expect(")")
		if a.Kind == "int" && p.g.opaqueStr { // opaque string id
			return intV(fmt.Sprintf("(%s %s)", p.g.uf("strlen", 1, "Int"), a.T))
		}
		if a.Len == "" {
			panic(specErr{"spec: len of a value without length in " + p.src})
		}
		return intV(a.Len)
	case t == "xor":
		// bitwise exclusive or, the same uninterpreted function the instruction semantics uses for ^
		p.expect("(")
		a := p.iff()
		p.expect(",")
		b := p.iff()
		p.expect(")")
		return intV(fmt.Sprintf("(%s %s %s)", p.g.uf("bxor", 2, "Int"), a.T, b.T))
	case t == "old":
		p.expect("(")
		save := p.env
		env2 := map[string]Val{}
		for k, v := range p.env {
			env2[k] = v
		}
		env2["$old"] = Val{T: "1"}
		p.env = env2
		a := p.iff()
		p.env = save
		p.expect(")")
		return a
	case t == "has":
		p.expect("(")
		m := p.iff()
		p.expect(",")
		k := p.iff()
		p.expect(")")
		md := p.st.mdom[m.Ref]
		if m.Heap == "old" {
			md = p.g.entryMdom[m.Ref]
		}
		if md == "" {
			panic(specErr{"spec: has() on a value that is not a modelled map in " + p.src})
		}
		return boolV(fmt.Sprintf("(select %s %s)", md, k.T))
	case t == "ref":
		p.expect("(")
		a := p.iff()
		p.expect(")")
		if a.Obj != "" {
			return intV(a.Obj)
		}
		if a.Ref == "" {
			return intV(a.T)
		}
		return intV(a.Ref)
	case t == "isdyn" && p.peek() == "(": // isdyn(x, "full/pkg/path.Type"): x is non-nil with that dynamic type
		p.next()
		x := p.iff()
		p.expect(",")
		lit := p.next()
		p.expect(")")
		ts, err := strconv.Unquote(lit)
		if err != nil {
			panic(specErr{"spec: isdyn(x, \"type\")"})
		}
		return boolV(fmt.Sprintf("(and (not (= %s 0)) (= (%s %s) %s))", x.T, p.g.uf("dyntype", 1, "Int"), x.T, strID(ts)))
	case t == "cast" && p.peek() == "(":
		p.next()
		x := p.iff()
		p.expect(",")
		lit := p.next()
		p.expect(")")
		ts, err := strconv.Unquote(lit)
		if err != nil {
			panic(specErr{"spec: cast(x, \"*pkg.Type\")"})
		}
		return p.g.specCast(x, ts)
	case t == "fnname" && p.peek() == "(": // identity of a function value: fnname(x) == "pkg.Func" / "Outer$1"
		p.next()
		a := p.iff()
		p.expect(")")
		if a.Kind == "closure" && a.Fn != nil {
			return p.g.strConstID(a.Fn.String())
		}
		if a.T != "" && (a.Kind == "opaque" || a.Kind == "int") {
			return intV(a.T) // a function value read back from memory: its identity is the stored id
		}
		return intV(p.g.uf("unknownfn", 0, "Int"))
	case t == "off":
		p.expect("(")
		a := p.iff()
		p.expect(")")
		return intV(a.Off)
	case t == "sliceof": // sliceof(ref, len): the slice [0:len) of backing array ref
		p.expect("(")
		as := p.args()
		if len(as) != 2 {
			panic(specErr{"spec: sliceof(ref, len)"})
		}
		v := Val{Ref: as[0].T, Off: "0", Len: as[1].T, Kind: "slice"}
		if _, isOld := p.env["$old"]; isOld {
			v.Heap = p.g.entryHs
		}
		return v
	case t == "bufof": // the append-only buffer behind a pointer / io.Writer value
		p.expect("(")
		a := p.iff()
		p.expect(")")
		_, isOld := p.env["$old"]
		return p.g.bufOf(p.st, a, isOld)
	case t == "deref": // *p for a pointer to an integer or bool
		p.expect("(")
		a := p.iff()
		p.expect(")")
		pt, ok := a.Ty.(*types.Pointer)
		if a.Ty != nil && !ok {
			pt, ok = a.Ty.Underlying().(*types.Pointer)
		}
		if !ok || a.T == "" || !isScalarCell(pt.Elem()) {
			panic(specErr{"spec: deref() needs a pointer to an integer or bool"})
		}
		key := derefKey(p.g, pt.Elem())
		_, isOld := p.env["$old"]
		h := p.g.heapGet(p.st, key)
		if isOld {
			h = p.g.entryHeapOf(key)
		}
		e := fmt.Sprintf("(select %s %s)", h, a.T)
		if isBoolType(pt.Elem()) {
			return Val{T: e, Kind: "bool"}
		}
		return intV(e)
	case t == "abs":
		p.expect("(")
		a := p.iff()
		p.expect(")")
		return intV(fmt.Sprintf("(ite (>= %s 0) %s (- %s))", a.T, a.T, a.T))
	case t == "min" || t == "max":
		p.expect("(")
		as := p.args()
		op := "<="
		if t == "max" {
			op = ">="
		}
		return intV(fmt.Sprintf("(ite (%s %s %s) %s %s)", op, as[0].T, as[1].T, as[0].T, as[1].T))
	default:
		if p.peek() == "(" {
			p.next()
			args := p.args()
			if pf, ok := p.g.cs.Pure[t]; ok { // spec function: expand
				if len(args) != len(pf.Params) {
					panic(specErr{"spec: arity of " + t})
				}
				if pf.Opaque {
					return p.g.opaqueApp(pf, args)
				}
				env2 := map[string]Val{}
				for k, v := range p.env {
					env2[k] = v
				}
				for i, a := range pf.Params {
					env2[a] = args[i]
					env2["$p:"+a] = Val{} // parameters shadow program variables of the same name
				}
				q := &sp{toks: lex(pf.Body), g: p.g, st: p.st, env: env2, src: pf.Body}
				v := q.iff()
				if q.i != len(q.toks) {
					panic(specErr{"spec: trailing tokens in pure func " + t})
				}
				return v
			}
			// uninterpreted function application
			var as []string
			for _, a := range args {
				as = append(as, a.T)
			}
			ret, kind := "Int", "int"
			base := t
			if i := strings.LastIndex(t, "."); i >= 0 {
				base = t[i+1:]
			}
			if strings.HasPrefix(base, "is") || strings.HasPrefix(base, "has") || strings.HasPrefix(base, "$is") || strings.HasPrefix(t, "$is") {
				ret, kind = "Bool", "bool"
			}
			if len(as) == 0 {
				return Val{T: p.g.uf(t, 0, ret), Kind: kind}
			}
			return Val{T: fmt.Sprintf("(%s %s)", p.g.uf(t, len(as), ret), strings.Join(as, " ")), Kind: kind}
		}
		if c, ok := p.g.cs.Consts[t]; ok {
			lit, _ := parseIntLit(c)
			return intV(lit)
		}
		if dot := strings.Index(t, "."); dot > 0 && !strings.HasPrefix(t, "$") {
			return p.g.fieldOf(p.st, t[:dot], t[dot+1:], p.env)
		}
		if strings.HasPrefix(t, "arg_") {
			if v, ok := p.env["arg:"+t[4:]]; ok {
				return v
			}
		}
		return p.g.lookupName(p.st, t, p.env)
	}
}

func (g *Gen) spec(st *State, src string, env map[string]Val) string {
	t, _ := g.specAnte(st, src, env)
	return t
}

// specAnte also returns the antecedent when the clause has the form A ==> B ("" otherwise); the
// vacuity covers ask that A is satisfiable at some return.
func (g *Gen) specAnte(st *State, src string, env map[string]Val) (string, string) {
	p := &sp{toks: lex(src), g: g, st: st, env: env, src: src}
	v := p.iff()
	if p.i != len(p.toks) {
		panic(specErr{fmt.Sprintf("spec: trailing tokens in %q at %d", src, p.i)})
	}
	if v.Kind != "bool" {
		panic(specErr{fmt.Sprintf("spec: %q is not boolean", src)})
	}
	return v.T, p.ante
}
