package main

import (
	"fmt"
	"strings"
)

// Opaque spec functions: applications stay uninterpreted inside (quantified) formulas; the
// definition is supplied once as a pattern-guarded axiom, so the solver unfolds it only for the
// applications that actually occur. The axiom is a definition (conservative), not an assumption
// about the program.
func (g *Gen) opaqueApp(pf PureFn, args []Val) Val {
	sym := "|" + pf.Name + "|"
	ret, kind := "Int", "int"
	if pf.Ret == "Bool" {
		ret, kind = "Bool", "bool"
	}
	if _, ok := g.ufuns[sym]; !ok {
		g.uf(pf.Name, len(pf.Params), ret)
		env := map[string]Val{}
		var binders, vars []string
		for _, a := range pf.Params {
			v := a + "!o"
			env[a] = intV(v)
			env["$p:"+a] = Val{}
			binders = append(binders, "("+v+" Int)")
			vars = append(vars, v)
		}
		q := &sp{toks: lex(pf.Body), g: g, st: newState(), env: env, src: pf.Body}
		body := q.iff()
		if q.i != len(q.toks) {
			panic(specErr{"spec: trailing tokens in opaque func " + pf.Name})
		}
		app := fmt.Sprintf("(%s %s)", sym, strings.Join(vars, " "))
		if g.axioms == nil {
			g.axioms = map[string]string{}
		}
		g.axioms[sym] = fmt.Sprintf("(forall (%s) (! (= %s %s) :pattern (%s)))", strings.Join(binders, " "), app, body.T, app)
	}
	var as []string
	for _, a := range args {
		as = append(as, a.T)
	}
	return Val{T: fmt.Sprintf("(%s %s)", sym, strings.Join(as, " ")), Kind: kind}
}
