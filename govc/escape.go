package main

import (
	"fmt"
	"go/types"
)

// Freshness / escape tracking: an object allocated by the function under verification (make, a local
// array or buffer, append's new backing store) cannot be aliased by anything a callee returns or by
// anything loaded from the heap, unless it has been handed out before (passed to a callee that is
// not pure, or stored into the heap / a global).

func valRefs(v Val, out map[string]bool) {
	if v.Ref != "" {
		out[v.Ref] = true
	}
	if (v.Kind == "opaque" || v.Kind == "err") && v.T != "" {
		out[v.T] = true
	}
	if v.Elem != nil {
		valRefs(*v.Elem, out)
	}
	for _, t := range v.Tup {
		valRefs(t, out)
	}
	for _, b := range v.Bind {
		valRefs(b, out)
	}
}

func (g *Gen) markEscape(st *State, v Val) {
	rs := map[string]bool{}
	valRefs(v, rs)
	for r := range rs {
		if st.fresh[r] {
			st.esc[r] = true
		}
	}
}

// distinctFromFresh assumes that the references inside result value v differ from every fresh,
// un-escaped object that was not reachable from the call's arguments.
func (g *Gen) distinctFromFresh(st *State, v Val, argRefs map[string]bool) {
	rs := map[string]bool{}
	switch {
	case v.Kind == "slice" && v.Ref != "":
		rs[v.Ref] = true
	case v.Kind == "opaque" && v.T != "" && v.Ty != nil:
		if _, ok := v.Ty.Underlying().(*types.Pointer); ok {
			rs[v.T] = true
		}
	case v.Kind == "tuple" || v.Kind == "struct":
		for _, t := range v.Tup {
			g.distinctFromFresh(st, t, argRefs)
		}
		return
	}
	for r := range rs {
		for _, f := range sortedKeysB(st.fresh) {
			if f == r || st.esc[f] || argRefs[f] {
				continue
			}
			g.assume(st, fmt.Sprintf("(not (= %s %s))", r, f))
		}
	}
}
