package main

import (
	"fmt"
	"go/token"
	"go/types"
	"os"
	"sort"
	"strings"

	"golang.org/x/tools/go/ssa"
)

// ---------------------------------------------------------------- loops

type loopInfo struct {
	ord  map[*ssa.BasicBlock]int
	body map[*ssa.BasicBlock]map[*ssa.BasicBlock]bool
}

func findLoops(fn *ssa.Function) loopInfo {
	li := loopInfo{ord: map[*ssa.BasicBlock]int{}, body: map[*ssa.BasicBlock]map[*ssa.BasicBlock]bool{}}
	var headers []*ssa.BasicBlock
	for _, b := range fn.Blocks {
		for _, s := range b.Succs {
			if s.Dominates(b) {
				if _, ok := li.body[s]; !ok {
					li.body[s] = map[*ssa.BasicBlock]bool{s: true}
					headers = append(headers, s)
				}
				stack := []*ssa.BasicBlock{b}
				for len(stack) > 0 {
					n := stack[len(stack)-1]
					stack = stack[:len(stack)-1]
					if li.body[s][n] {
						continue
					}
					li.body[s][n] = true
					stack = append(stack, n.Preds...)
				}
			}
		}
	}
	firstPos := func(h *ssa.BasicBlock) token.Pos {
		best := token.Pos(1 << 40)
		for b := range li.body[h] {
			for _, in := range b.Instrs {
				if p := in.Pos(); p.IsValid() && p < best {
					best = p
				}
			}
		}
		return best
	}
	sort.Slice(headers, func(i, j int) bool {
		pi, pj := firstPos(headers[i]), firstPos(headers[j])
		if pi != pj {
			return pi < pj
		}
		return headers[i].Index < headers[j].Index
	})
	for i, h := range headers {
		li.ord[h] = i + 1
	}
	return li
}

func rpo(fn *ssa.Function, start *ssa.BasicBlock) []*ssa.BasicBlock {
	seen := map[*ssa.BasicBlock]bool{}
	var post []*ssa.BasicBlock
	var dfs func(b *ssa.BasicBlock)
	dfs = func(b *ssa.BasicBlock) {
		seen[b] = true
		for _, s := range b.Succs {
			if !seen[s] && !s.Dominates(b) {
				dfs(s)
			}
		}
		post = append(post, b)
	}
	dfs(start)
	for i, j := 0, len(post)-1; i < j; i, j = i+1, j-1 {
		post[i], post[j] = post[j], post[i]
	}
	return post
}

// loopEffects summarises what the natural loop of h may assign.
type loopEffects struct {
	cells    []*ssa.Alloc
	fields   map[string]bool
	elems    bool
	maps     bool
	allHeap  bool
	ghosts   map[string]bool
	allGhost bool
}

func (g *Gen) loopEffects(li loopInfo, h *ssa.BasicBlock) loopEffects {
	le := loopEffects{fields: map[string]bool{}, ghosts: map[string]bool{}}
	seen := map[*ssa.Alloc]bool{}
	addCell := func(v ssa.Value) {
		for {
			switch x := v.(type) {
			case *ssa.FieldAddr:
				v = x.X
				continue
			case *ssa.IndexAddr:
				v = x.X
				continue
			}
			break
		}
		if a, ok := v.(*ssa.Alloc); ok && !seen[a] {
			seen[a] = true
			le.cells = append(le.cells, a)
		}
	}
	var scanFn func(f *ssa.Function, blocks map[*ssa.BasicBlock]bool, depth int)
	scanFn = func(f *ssa.Function, blocks map[*ssa.BasicBlock]bool, depth int) {
		for _, b := range f.Blocks {
			if blocks != nil && !blocks[b] {
				continue
			}
			for _, in := range b.Instrs {
				switch s := in.(type) {
				case *ssa.Store:
					switch a := s.Addr.(type) {
					case *ssa.Alloc:
						addCell(a)
					case *ssa.FieldAddr:
						addCell(a)
						key, _ := g.heapKey(a.X.Type(), a.Field)
						le.fields[key] = true
					case *ssa.IndexAddr:
						addCell(a)
						le.elems = true
					case *ssa.FreeVar:
						le.allHeap = true // closure writes a captured cell: treated conservatively by caller
					default:
						le.allHeap = true
					}
				case *ssa.Next:
					if s.IsString {
						le.ghosts["$it:"+s.Iter.Name()] = true // hidden position of a string iterator
					}
				case *ssa.MapUpdate:
					le.maps = true
				case *ssa.Call:
					for _, a := range s.Call.Args {
						addCell(a)
					}
					if _, isB := s.Call.Value.(*ssa.Builtin); isB {
						continue
					}
					// ghosts assigned by this contract's own `ghostset` clauses at a call inside the loop
					// change in the loop (before: they kept their pre-loop value at the loop head, which
					// made an invariant like `$n == i` contradictory after the first round and everything
					// after the loop vacuous)
					if g.c != nil {
						disp := "call"
						var sc *ssa.Function
						if s.Call.IsInvoke() {
							disp = s.Call.Method.Name()
						} else if sc = s.Call.StaticCallee(); sc != nil {
							disp = calleeKey(sc)
						} else {
							disp = "funcvalue"
						}
						for _, gs := range g.c.GhostSet {
							if gs[0] == disp || (sc != nil && sc.Pkg != nil && gs[0] == sc.Pkg.Pkg.Name()+"."+disp) {
								le.ghosts[gs[1]] = true
							}
						}
					}
					callee := s.Call.StaticCallee()
					if callee != nil && callee.Signature.Recv() != nil && isBufPtr(callee.Signature.Recv().Type()) {
						le.elems = true
						g.bufLenArr(nil, true)
						le.fields[bufLenKey] = true
						continue
					}
					cc := g.contractFor(&s.Call)
					if cc == nil && callee == nil && !s.Call.IsInvoke() {
						if spec := staticFnSpec(s.Call.Value); spec != "" { // function value with a behaviour spec
							if key, ok := g.cs.FieldSpecs[spec]; ok {
								cc = g.cs.ByKey[key]
							}
						}
					}
					if callee != nil && g.canInline(callee) && depth < 3 {
						scanFn(callee, nil, depth+1)
						continue
					}
					if cc == nil {
						if g.isSkippable(&s.Call) {
							continue
						}
						if os.Getenv("GOVC_DEBUG_LOOP") != "" {
							fmt.Fprintf(os.Stderr, "loop havoc-all: %s calls %s without contract\n", f.Name(), s.Call.Value.String())
						}
						le.allHeap, le.allGhost, le.maps = true, true, true
						continue
					}
					if cc.Pure {
						continue
					}
					for _, m := range cc.Modifies {
						switch {
						case strings.HasPrefix(m, "$"):
							le.ghosts[m] = true
						case strings.HasPrefix(m, "mem(") || m == "mem":
							le.elems = true
						case strings.HasPrefix(m, "sink("):
							le.elems = true
							g.bufLenArr(nil, true)
							le.fields[bufLenKey] = true
						case strings.HasPrefix(m, "map("):
							le.maps = true
						case m == "heap":
							le.allHeap = true
						default:
							le.fields[m] = true
						}
					}
				}
			}
		}
	}
	scanFn(h.Parent(), li.body[h], 0)
	sort.Slice(le.cells, func(i, j int) bool { return le.cells[i].Pos() < le.cells[j].Pos() })
	return le
}

// memFrameRefs returns the ref terms the function may write besides fresh ones.
func (g *Gen) memModRefs(st *State) []string {
	var out []string
	for _, m := range g.c.Modifies {
		if strings.HasPrefix(m, "mem(") {
			name := strings.TrimSuffix(strings.TrimPrefix(m, "mem("), ")")
			if v, ok := g.paramVals[name]; ok && v.Ref != "" {
				out = append(out, v.Ref)
			} else {
				panic(specErr{"modifies mem(" + name + "): not a slice parameter"})
			}
		}
	}
	return out
}

// havocHs replaces the array heap. Arrays of known refs that are provably different from every
// ref in written are kept (all=true: nothing is kept).
func (g *Gen) havocHs(st *State, written []string, all bool) {
	old := g.hsGet(st)
	nw := g.newSym("Hs", "(Array Int (Array Int Int))")
	if all {
		// objects allocated by this function that were never handed out (passed to a non-pure callee,
		// stored into the heap or a global) cannot be reached by anybody else: their arrays are kept
		for _, r := range st.refs {
			if st.fresh[r] && !st.esc[r] {
				g.assume(st, fmt.Sprintf("(= (select %s %s) (select %s %s))", nw, r, old, r))
			}
		}
	}
	if !all {
		for _, r := range st.refs {
			guard := "true"
			skip := false
			for _, w := range written {
				if w == r {
					skip = true
					break
				}
				if g.sinkRefs[w] != g.sinkRefs[r] {
					continue // a sink's record and a backing array are different kinds of object
				}
				guard = and(guard, fmt.Sprintf("(not (= %s %s))", r, w))
			}
			if skip {
				continue
			}
			g.assume(st, fmt.Sprintf("(=> %s (= (select %s %s) (select %s %s)))", guard, nw, r, old, r))
		}
	}
	st.hs = nw
	g.havocHsf(st, written, all) // the per-field arrays of struct elements follow the same frame
	for _, r := range st.refs {
		if rg, ok := g.refRange[r]; ok {
			g.assume(st, elemRangeFact(nw, r, rg))
		}
	}
}

func (g *Gen) havocField(st *State, key string) {
	srt, ok := g.heapSort[key]
	if !ok {
		return
	}
	st.heap[key] = g.newSym("H."+key, srt)
	if !strings.Contains(key, "#") {
		for _, sfx := range []string{"#off", "#len"} {
			if _, ok := g.heapSort[key+sfx]; ok {
				st.heap[key+sfx] = g.newSym("H."+key+sfx, "(Array Int Int)")
			}
		}
	}
}

// havocFieldDeep: a write to (or a callee that modifies) Type.field may also be a write to the copy of
// Type that another struct holds by value, which lives under a path key; those are havocked with it,
// as are the offset/length arrays of a slice-typed field, whether or not they have been mentioned yet
// (a key that is first read after the havoc must not read the entry heap).
func (g *Gen) havocFieldDeep(st *State, key string) {
	reg := func(k, like string) {
		if _, ok := g.heapSort[k]; !ok {
			g.heapSort[k] = g.heapSort[like]
		}
		if fieldIsSlice[like] {
			for _, sfx := range []string{"#off", "#len"} {
				if _, ok := g.heapSort[k+sfx]; !ok {
					g.heapSort[k+sfx] = "(Array Int Int)"
				}
			}
		}
	}
	if strings.Contains(key, "#") {
		g.havocField(st, key)
		return
	}
	if _, ok := g.heapSort[key]; !ok {
		srt, known := fieldSorts[key]
		switch {
		case !known:
			return // not a struct field of the program (a synthetic key nobody has used yet)
		case srt == "?":
			g.havocAllFields(st) // same Type.field name with different sorts in two packages: give up precision
			return
		}
		g.heapSort[key] = srt
	}
	reg(key, key)
	g.havocField(st, key)
	if i := strings.Index(key, "."); i > 0 && strings.Count(key, ".") == 1 {
		for _, p := range nestPaths[key[:i]] {
			k := p + key[i:]
			reg(k, key)
			g.havocField(st, k)
		}
	}
}

func (g *Gen) havocAllFields(st *State) {
	for _, k := range sortedKeysS(g.heapSort) {
		g.havocField(st, k)
	}
	// fields that no instruction or clause has mentioned yet are havocked as well (see State.epochs)
	g.fresh++
	st.epochs = []epochAlt{{"true", fmt.Sprint(g.fresh)}}
}

func sortedKeysS(m map[string]string) []string {
	var ks []string
	for k := range m {
		ks = append(ks, k)
	}
	sort.Strings(ks)
	return ks
}

func (g *Gen) havocMaps(st *State) {
	var ks []string
	for r := range st.mdom {
		ks = append(ks, r)
	}
	sort.Strings(ks)
	for _, r := range ks {
		srt := "(Array Int Int)"
		if g.mapValKind[r] == "garrbool" {
			srt = "(Array Int Bool)"
		}
		st.mdom[r] = g.newSym("md_h", "(Array Int Bool)")
		st.mval[r] = g.newSym("mv_h", srt)
	}
}

func (g *Gen) havocGhost(st *State, name string) {
	switch st.ghost[name].Kind {
	case "garrbool":
		st.ghost[name] = Val{T: g.newSym("g"+name[1:], "(Array Int Bool)"), Kind: "garrbool"}
	case "garrint":
		st.ghost[name] = Val{T: g.newSym("g"+name[1:], "(Array Int Int)"), Kind: "garrint"}
	case "bool":
		st.ghost[name] = Val{T: g.newSym("g"+name[1:], "Bool"), Kind: "bool"}
	case "":
	default:
		st.ghost[name] = Val{T: g.newSym("g"+name[1:], "Int"), Kind: "int"}
	}
}

func (g *Gen) havocAllGhost(st *State) {
	for _, k := range sortedKeys(st.ghost) {
		if k == "$panicking" || k == "$obs" {
			continue
		}
		g.havocGhost(st, k)
	}
}

// ---------------------------------------------------------------- function execution

type retInfo struct {
	st  *State
	res []Val
}

func (g *Gen) invEnv() map[string]Val {
	envI := map[string]Val{"$inv": {}}
	for kk, vv := range g.env {
		envI[kk] = vv
	}
	return envI
}

// execFunc runs one instance of fn from state st (parameters already bound in g.regs).
// top: emit ensures at returns. Returns the merged state at return (nil if none) and results.
func (g *Gen) execFunc(fn *ssa.Function, st *State, top bool, start *ssa.BasicBlock) (*State, []Val) {
	li := findLoops(fn)
	in := map[*ssa.BasicBlock][]*State{}
	fromEntry := start == nil
	if start == nil {
		start = fn.Blocks[0]
	}
	in[start] = []*State{st}
	var rets []retInfo
	retOrd := 0
	for _, b := range rpo(fn, start) {
		if b.Comment == "recover" {
			continue
		}
		ins := in[b]
		if len(ins) == 0 {
			continue
		}
		for _, instr := range b.Instrs {
			phi, ok := instr.(*ssa.Phi)
			if !ok {
				break
			}
			var vs []Val
			var sel []string
			for _, s := range ins {
				for pi, p := range b.Preds {
					if p == s.from {
						vs = append(vs, g.val(s, phi.Edges[pi]))
						sel = append(sel, s.pc)
						break
					}
				}
			}
			if len(vs) == len(ins) && len(vs) > 0 {
				g.regs[phi] = g.mergeVal(sel, vs)
			} else {
				g.regs[phi] = g.symFor(phi.Type(), "phi", ins[0])
			}
		}
		cur := g.merge(ins).clone()
		// loop header cut
		if k, isLoop := li.ord[b]; isLoop && !(top && g.lemma != nil && b == g.lemmaHdr) {
			if !top {
				panic(oos("loop inside an inlined function " + fn.Name()))
			}
			invs := g.c.Invs[k]
			if g.lemma != nil {
				invs = nil // inner loops of a lemma body are havocked without invariant facts
			}
			envI := g.invEnv()
			if g.lemma == nil {
				for i, inv := range invs {
					g.oblige(cur, "inv.entry", fmt.Sprintf("loop%d.invariant[%s].entry", k, clauseName(inv, i)), g.line(firstPosOf(b)), g.spec(cur, inv.Expr, envI))
				}
			}
			le := g.loopEffects(li, b)
			if os.Getenv("GOVC_TRACE") != "" {
				fmt.Fprintf(os.Stderr, "loop %d of %s: cells=%d fields=%v elems=%v maps=%v allHeap=%v ghosts=%v allGhost=%v\n", k, fn.Name(), len(le.cells), le.fields, le.elems, le.maps, le.allHeap, le.ghosts, le.allGhost)
			}
			for _, a := range le.cells {
				if _, ok := cur.cells[a]; ok {
					el := a.Type().(*types.Pointer).Elem()
					if _, isArr := el.Underlying().(*types.Array); isArr {
						continue // the cell keeps its backing store; the elements are havocked through Hs
					}
					cur.cells[a] = g.symFor(el, a.Comment+"_h", cur)
				}
			}
			if le.allHeap {
				g.havocAllFields(cur)
				g.havocHs(cur, nil, true)
			} else {
				for _, key := range sortedKeysB(le.fields) {
					g.havocFieldDeep(cur, key)
				}
				if le.elems {
					written := g.memModRefs(cur)
					written = append(written, sortedKeysB(cur.fresh)...)
					g.havocHs(cur, written, false)
				}
			}
			if le.maps {
				g.havocMaps(cur)
			}
			if le.allGhost {
				g.havocAllGhost(cur)
			} else {
				for _, gh := range sortedKeysB(le.ghosts) {
					g.havocGhost(cur, gh)
				}
			}
			for _, inv := range invs {
				g.assume(cur, g.spec(cur, inv.Expr, envI))
			}
			if g.lemma == nil && len(invs) > 0 {
				// vacuity guard: the invariant must be satisfiable at the loop head
				g.obls = append(g.obls, Obl{Name: fmt.Sprintf("loop%d.cover", k), Kind: "cover", Pc: cur.pc, Goal: "false", Cover: true})
			}
		}
		ended := false
		for _, instr := range b.Instrs {
			switch x := instr.(type) {
			case *ssa.If:
				c := g.val(cur, x.Cond)
				s0, s1 := cur.clone(), cur.clone()
				g.assume(s0, c.T)
				g.assume(s1, not(c.T))
				g.flow(li, b, b.Succs[0], s0, in, top)
				g.flow(li, b, b.Succs[1], s1, in, top)
				ended = true
			case *ssa.Jump:
				g.flow(li, b, b.Succs[0], cur, in, top)
				ended = true
			case *ssa.Return:
				var res []Val
				for _, r := range x.Results {
					res = append(res, g.val(cur, r))
				}
				if top {
					retOrd++
					if g.lemma != nil {
						goal := "false"
					if g.lemma.OnReturn != "" {
						goal = g.spec(cur, g.lemma.OnReturn, g.resultEnv(g.fn, g.c, res, g.env))
					}
					g.oblige(cur, "lemma", fmt.Sprintf("lemma[%s].return#%d", g.lemma.Name, retOrd), g.line(x.Pos()), goal)
					} else {
						g.doReturn(cur, x, res)
					}
				}
				rets = append(rets, retInfo{cur, res})
				ended = true
			case *ssa.RunDefers:
				g.runDefers(fn, cur)
			case *ssa.Panic:
				if top && g.lemma == nil && !g.c.NoPanic {
					// explicit panic: an exceptional exit
					sp := cur.clone()
					sp.ghost["$panicking"] = Val{T: "true", Kind: "bool"}
					g.runDefers(fn, sp)
					for i, e := range g.c.EnsPanic {
						g.oblige(sp, "xpost", fmt.Sprintf("ensures_panic[%s]@panic#%d", clauseName(e, i), g.ord("panic")), g.line(x.Pos()), g.spec(sp, e.Expr, g.env))
					}
				} else if top && g.lemma == nil && g.c.NoPanic {
					g.oblige(cur, "safety", fmt.Sprintf("nopanic#%d", g.ord("nopanic")), g.line(x.Pos()), "false")
				}
				ended = true
			default:
				g.step(fn, cur, instr)
			}
			if ended {
				break
			}
		}
	}
	if len(rets) == 0 {
		return nil, nil
	}
	if top && fromEntry && g.c.Inject == "" {
		return nil, nil // postconditions were checked at each return; nobody needs the merged exit state
	}
	var sts []*State
	for _, r := range rets {
		sts = append(sts, r.st)
	}
	merged := g.merge(sts)
	var res []Val
	for i := range rets[0].res {
		var vs []Val
		var sel []string
		for _, r := range rets {
			vs = append(vs, r.res[i])
			sel = append(sel, r.st.pc)
		}
		res = append(res, g.mergeVal(sel, vs))
	}
	return merged, res
}

func firstPosOf(b *ssa.BasicBlock) token.Pos {
	for _, in := range b.Instrs {
		if in.Pos().IsValid() {
			return in.Pos()
		}
	}
	return token.NoPos
}

func clauseName(c Clause, i int) string {
	if c.Label != "" {
		return c.Label
	}
	return fmt.Sprint(i + 1)
}

// flow delivers state st along edge from->to.
func (g *Gen) flow(li loopInfo, from, to *ssa.BasicBlock, st *State, in map[*ssa.BasicBlock][]*State, top bool) {
	if top && g.lemma == nil && g.loopExit != nil {
		for h, k := range li.ord {
			if li.body[h][from] && !li.body[h][to] && to != h {
				g.loopExit[k] = append(g.loopExit[k], st.pc) // an edge that leaves loop k
			}
		}
	}
	if to.Dominates(from) { // back edge
		if k, ok := li.ord[to]; ok && top {
			if g.lemma != nil && to == g.lemmaHdr {
				st.from = from
				g.backStates = append(g.backStates, st)
				return
			}
			if g.lemma != nil {
				return
			}
			envI := g.invEnv()
			for i, inv := range g.c.Invs[k] {
				g.oblige(st, "inv.step", fmt.Sprintf("loop%d.invariant[%s].step", k, clauseName(inv, i)), g.line(firstPosOf(to)), g.spec(st, inv.Expr, envI))
			}
		}
		return
	}
	st.from = from
	in[to] = append(in[to], st)
}

func (g *Gen) resultEnv(fn *ssa.Function, c *Contract, res []Val, base map[string]Val) map[string]Val {
	env2 := map[string]Val{}
	for k, v := range base {
		env2[k] = v
	}
	sig := fn.Signature.Results()
	for i := range res {
		name := sig.At(i).Name()
		if i < len(c.Results) {
			env2[c.Results[i]] = res[i]
		}
		if name != "" && name != "_" {
			env2[name] = res[i]
		}
	}
	return env2
}

func (g *Gen) doReturn(st *State, x *ssa.Return, res []Val) {
	env2 := g.resultEnv(g.fn, g.c, res, g.env)
	k := g.ord("ret")
	for i, e := range g.c.Ensures {
		n := len(g.obls)
		goal, ante := g.specAnte(st, e.Expr, env2)
		if g.retReach != nil {
			if ante == "" {
				ante = "true"
			}
			g.retReach[i] = append(g.retReach[i], fmt.Sprintf("(and %s %s)", st.pc, ante))
		}
		g.oblige(st, "post", fmt.Sprintf("ensures[%s]@ret%d", clauseName(e, i), k), g.line(x.Pos()), goal)
		if len(g.obls) > n {
			g.obls[n].Props = e.Props
		}
	}
	g.freshObls(st, env2, x.Pos(), k)
}

// runDefers splices the deferred closures of fn (reverse registration order), each guarded by its
// "registered" flag.
func (g *Gen) runDefers(fn *ssa.Function, st *State) {
	var ds []*ssa.Defer
	for _, b := range fn.Blocks {
		for _, in := range b.Instrs {
			if d, ok := in.(*ssa.Defer); ok {
				ds = append(ds, d)
			}
		}
	}
	for i := len(ds) - 1; i >= 0; i-- {
		d := ds[i]
		flag, ok := st.defers[d]
		if !ok {
			continue
		}
		run := st.clone()
		g.assume(run, flag)
		delete(run.defers, d) // a deferred call runs once: a panic inside it only runs the earlier defers
		skip := st.clone()
		g.assume(skip, not(flag))
		delete(skip.defers, d)
		var after *State
		switch cv := d.Call.Value.(type) {
		case *ssa.MakeClosure:
			callee := cv.Fn.(*ssa.Function)
			for j, fvv := range callee.FreeVars {
				run.fv[fvv] = g.val(run, cv.Bindings[j])
			}
			for j, p := range callee.Params {
				g.regs[p] = g.val(run, d.Call.Args[j])
			}
			after, _ = g.execFunc(callee, run, false, nil)
		default:
			// plain deferred call: evaluate as a call at this point
			g.callCommon(fn, run, &d.Call, nil, d.Pos())
			after = run
		}
		var parts []*State
		if after != nil {
			parts = append(parts, after)
		}
		parts = append(parts, skip)
		m := g.merge(parts)
		*st = *m.clone()
	}
}
