package main

import (
	"fmt"
	"go/types"
	"strings"

	"golang.org/x/tools/go/ssa"
)

// Package-level variables: their entry value is one symbol per function under verification
// (memoised), overridden per state by stores. Error-typed globals are sentinels: non-nil and pairwise
// distinct (each is created once by errors.New / fmt.Errorf in its package initialiser and never
// reassigned - assumed, listed in the evidence).
func (g *Gen) globalVal(st *State, key string, t types.Type) Val {
	if v, ok := st.globs[key]; ok {
		return v
	}
	if g.globInit == nil {
		g.globInit = map[string]Val{}
		g.globFacts = map[string]string{}
	}
	v, ok := g.globInit[key]
	if !ok {
		tmp := newState()
		v = g.symFor(t, key, tmp)
		facts := tmp.pc
		if v.Kind == "err" && isErrorType(t) {
			facts = and(facts, fmt.Sprintf("(not (= %s 0))", v.T))
			for _, k := range sortedKeys(g.globInit) {
				if o := g.globInit[k]; o.Kind == "err" {
					facts = and(facts, fmt.Sprintf("(not (= %s %s))", v.T, o.T))
				}
			}
			for _, r := range g.freshErrs {
				facts = and(facts, fmt.Sprintf("(not (= %s %s))", v.T, r))
			}
			if isModuleGlobal(key) {
				for _, r := range g.foreignErrList {
					facts = and(facts, fmt.Sprintf("(not (= %s %s))", v.T, r))
				}
			}
			g.trustedUsed["package-level error variables are non-nil, pairwise distinct sentinels"] = true
		}
		// maps inside tmp (symFor registers contents in tmp.mdom) are not carried over: globals of map
		// type are handled as "globmap" (uninterpreted) elsewhere
		g.globInit[key] = v
		g.globFacts[key] = facts
	}
	g.assume(st, g.globFacts[key])
	return v
}

func isModuleGlobal(key string) bool { return strings.HasPrefix(key, "glob_"+modulePath) }

// notSentinel: r is a newly created error value, so it differs from every sentinel (of any package).
func (g *Gen) notSentinel(st *State, r string) {
	g.freshErrs = append(g.freshErrs, r)
	for _, k := range sortedKeys(g.globInit) {
		if o := g.globInit[k]; o.Kind == "err" {
			g.assume(st, fmt.Sprintf("(not (= %s %s))", r, o.T))
		}
	}
}

// foreignErrs: error results of assumed standard-library contracts are not this module's sentinels.
func (g *Gen) foreignErrs(st *State, v Val) {
	switch v.Kind {
	case "tuple", "struct":
		for _, t := range v.Tup {
			g.foreignErrs(st, t)
		}
		return
	case "err":
	default:
		return
	}
	if v.Ty == nil || !isErrorType(v.Ty) {
		return
	}
	g.foreignErrList = append(g.foreignErrList, v.T)
	for _, k := range sortedKeys(g.globInit) {
		if o := g.globInit[k]; o.Kind == "err" && isModuleGlobal(k) {
			g.assume(st, fmt.Sprintf("(not (= %s %s))", v.T, o.T))
		}
	}
	g.trustedUsed["standard-library calls do not return this module's sentinel errors"] = true
}

func globKey(gl *ssa.Global) string {
	if gl.Pkg != nil {
		return "glob_" + gl.Pkg.Pkg.Path() + "." + gl.Name()
	}
	return "glob_." + gl.Name()
}
