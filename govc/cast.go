package main

import (
	"go/types"
	"strings"
)

// cast(x, "*pkg/path.Type"): the pointer held by interface value x, typed so that its fields can be
// read (cast(c.Transport, "*net/http.Transport").Proxy). An interface made from a non-nil pointer has
// the pointer's identity (MakeInterface), which is what payloadOf assumes for type assertions too; the
// spec using cast should also state isdyn(x, "...") for the dynamic type.
func (g *Gen) specCast(x Val, tname string) Val {
	if x.Elem != nil && x.Elem.Kind == "ptr" && x.Elem.Cell != nil { // boxed pointer to a local struct cell
		return *x.Elem
	}
	ptr := strings.HasPrefix(tname, "*")
	tname = strings.TrimPrefix(tname, "*")
	dot := strings.LastIndex(tname, ".")
	if dot < 0 {
		panic(specErr{"spec: cast needs a package-qualified type: " + tname})
	}
	path, name := tname[:dot], tname[dot+1:]
	for _, p := range g.fn.Prog.AllPackages() {
		if p.Pkg.Path() != path {
			continue
		}
		if tn, ok := p.Pkg.Scope().Lookup(name).(*types.TypeName); ok {
			var t types.Type = tn.Type()
			if ptr {
				t = types.NewPointer(t)
			}
			return Val{T: x.T, Kind: "opaque", Ty: t}
		}
	}
	panic(specErr{"spec: cast: unknown type " + tname})
}
