package main

// bytes.Buffer / strings.Builder as heap objects: contents in Hs[ref], length in the heap field
// "Buffer.len". A `var b bytes.Buffer` local is a fresh object; *bytes.Buffer parameters and
// io.Writer values wrapping one are references to such objects.

import (
	"fmt"
	"go/types"
	"strings"

	"golang.org/x/tools/go/ssa"
)

const bufLenKey = "Buffer.len"

func isBufPtr(t types.Type) bool {
	p, ok := t.Underlying().(*types.Pointer)
	return ok && isBufType(p.Elem())
}

func (g *Gen) bufLenArr(st *State, old bool) string {
	if _, ok := g.heapSort[bufLenKey]; !ok {
		g.heapSort[bufLenKey] = "(Array Int Int)"
	}
	if old {
		if o, ok := g.entryHeap[bufLenKey]; ok {
			return o
		}
		n := "|H0." + bufLenKey + "|"
		if _, ok := g.decls[n]; !ok {
			g.decls[n] = "(Array Int Int)"
			g.declOrder = append(g.declOrder, n)
		}
		return n
	}
	return g.heapGet(st, bufLenKey)
}

// bufAlloc makes alloc (a local bytes.Buffer / strings.Builder) a fresh empty buffer object.
func (g *Gen) bufAlloc(st *State, a *ssa.Alloc, empty bool) {
	r := g.freshRef(st)
	if empty {
		g.setHs(st, r, emptyAr)
		st.heap[bufLenKey] = g.def("H", "(Array Int Int)", fmt.Sprintf("(store %s %s 0)", g.bufLenArr(st, false), r))
	}
	g.regs[a] = Val{Kind: "opaque", T: r, Ty: a.Type()}
}

// bufRef extracts the object reference of a buffer from a pointer or interface value.
func bufRef(a Val) (string, bool) {
	if a.Kind == "err" && a.Elem != nil && a.Elem.Kind == "opaque" {
		return a.Elem.T, true
	}
	if (a.Kind == "opaque" || a.Kind == "err") && a.T != "" {
		return a.T, true
	}
	return "", false
}

// bufOf: the current (or entry) contents of the buffer behind a as a value-form sequence.
func (g *Gen) bufOf(st *State, a Val, old bool) Val {
	r, ok := bufRef(a)
	if !ok {
		panic(specErr{"spec: bufof() of a value that is not a buffer reference"})
	}
	hs := g.hsGet(st)
	if old {
		hs = g.entryHs
	}
	l := fmt.Sprintf("(select %s %s)", g.bufLenArr(st, old), r)
	g.assume(st, fmt.Sprintf("(and (<= 0 %s) (<= %s %s))", l, l, maxLen))
	return Val{T: fmt.Sprintf("(select %s %s)", hs, r), Len: l, Off: "0", Kind: "slice", Obj: r}
}

func (g *Gen) bufLen(st *State, r string) string {
	l := fmt.Sprintf("(select %s %s)", g.bufLenArr(st, false), r)
	g.assume(st, fmt.Sprintf("(and (<= 0 %s) (<= %s %s))", l, l, maxLen))
	return l
}

func (g *Gen) bufSetLen(st *State, r, l string) {
	g.assume(st, fmt.Sprintf("(<= %s %s)", l, maxLen)) // a buffer never outgrows the address space (DESIGN 8.3)
	st.heap[bufLenKey] = g.def("H", "(Array Int Int)", fmt.Sprintf("(store %s %s %s)", g.bufLenArr(st, false), r, l))
}

// frameSink: a function whose frame names its sinks (modifies sink(w) and no `heap`) may append only
// to those sinks and to buffers it allocated itself.
func (g *Gen) frameSink(st *State, r string) {
	if g.c == nil || g.lemma != nil || st.fresh[r] {
		return
	}
	var alts []string
	for _, m := range g.c.Modifies {
		if m == "heap" {
			return
		}
		if strings.HasPrefix(m, "sink(") {
			if v, ok := g.env[strings.TrimSuffix(strings.TrimPrefix(m, "sink("), ")")]; ok {
				if sr, ok := bufRef(v); ok {
					alts = append(alts, fmt.Sprintf("(= %s %s)", r, sr))
				}
			}
		}
	}
	if len(alts) == 0 {
		return // no sink frame declared: appends are unchecked (append-only records)
	}
	for _, f := range sortedKeysB(st.fresh) {
		alts = append(alts, fmt.Sprintf("(= %s %s)", r, f))
	}
	g.oblige(st, "frame", fmt.Sprintf("frame.sink#%d", g.ord("frame.sink")), g.c.Line, "(or "+strings.Join(alts, " ")+" false)")
}

func (g *Gen) bufAppendByte(st *State, r, c string) {
	g.frameSink(st, r)
	l := g.bufLen(st, r)
	g.setHs(st, r, fmt.Sprintf("(store (select %s %s) %s %s)", g.hsGet(st), r, l, c))
	g.bufSetLen(st, r, g.def("bl", "Int", fmt.Sprintf("(+ %s 1)", l)))
}

func (g *Gen) bufAppendSeq(st *State, r string, s Val) {
	g.frameSink(st, r)
	l := g.bufLen(st, r)
	cur := Val{T: fmt.Sprintf("(select %s %s)", g.hsGet(st), r), Len: l, Off: "0", Kind: "slice"}
	nv := g.appendSeq(st, cur, s)
	g.setHs(st, r, nv.T)
	g.bufSetLen(st, r, nv.Len)
}
