package main

import (
	"encoding/json"
	"fmt"
	"os"
	"path/filepath"
	"sort"
	"strings"
	"time"
)

type ReplayFile struct {
	Property   string            `json:"property"`
	Obligation string            `json:"obligation"`
	Function   string            `json:"function"`
	Kind       string            `json:"kind"`
	File       string            `json:"file,omitempty"`
	Line       int               `json:"line,omitempty"`
	Clause     string            `json:"clause,omitempty"`
	Solver     string            `json:"solver"`
	Result     string            `json:"solver_result"`
	Model      string            `json:"model,omitempty"`
	Inputs     map[string]string `json:"inputs,omitempty"`
	Replay     string            `json:"replay"` // reproduced | not reproduced | none
	ReplayOut  string            `json:"replay_output,omitempty"`
	TestFile   string            `json:"test_source,omitempty"`
	Pkg        string            `json:"pkg,omitempty"`
	Note       string            `json:"note,omitempty"`
}

func report(prop, tier string, seed int, verif, repo string, cs *ContractSet, l *Loaded, frs []*FuncResult, t0 time.Time, verbose, noEvidence bool) int {
	ff := loadFindings(verif)
	known := map[string]Finding{}
	for _, f := range ff.Findings {
		if f.Property == prop {
			known[f.Obligation] = f
		}
	}
	total, discharged, covers, coversOK, knownCnt := 0, 0, 0, 0, 0
	coversUndecided := 0
	bySolver := map[string]int{}
	solverSecs := 0.0
	var samples []map[string]any
	var funcs []string
	trusted := map[string]bool{}
	unmodelled := map[string]bool{}
	type fail struct {
		fr *FuncResult
		o  *Obl
	}
	var fails []fail
	var vacuous []string
	seenKnown := map[string]bool{}
	maxSecs := 0.0
	for _, fr := range frs {
		funcs = append(funcs, fr.Short)
		if fr.Err != "" {
			o := &Obl{Name: "translate", Kind: "bind", Result: fr.Err}
			full := fr.Short + "/" + o.Name
			if _, ok := known[full]; ok {
				seenKnown[full] = true
				knownCnt++
				continue
			}
			total++
			fails = append(fails, fail{fr, o})
			continue
		}
		if fr.Gen != nil {
			for t := range fr.Gen.trustedUsed {
				trusted[t] = true
			}
			for t := range fr.Gen.unmodelled {
				unmodelled[fr.Short+": "+t] = true
			}
		} else {
			trusted["Lean 4 kernel (induction schemas lean/Schemas.lean, re-checked by `lean` on every run)"] = true
		}
		for i := range fr.Obls {
			o := &fr.Obls[i]
			solverSecs += o.Secs
			if o.Secs > maxSecs {
				maxSecs = o.Secs
			}
			if o.Cover {
				covers++
				if o.ok() {
					coversOK++
					if o.Result != "sat" {
						coversUndecided++
					}
				} else {
					vacuous = append(vacuous, fr.Short+"/"+o.Name+" ("+o.Result+")")
				}
				continue
			}
			if len(o.Props) > 0 {
				mine := false
				for _, p := range o.Props {
					if p == prop {
						mine = true
					}
				}
				if !mine {
					continue // this clause belongs to other properties only
				}
			}
			if o.Kind == "side" {
				if o.ok() {
					bySolver[o.Solver]++
				}
				continue // side conditions are not claimed obligations
			}
			full := fr.Short + "/" + o.Name
			if _, ok := known[full]; ok {
				knownCnt++
				if !o.ok() {
					seenKnown[full] = true
				} else {
					fmt.Printf("NOTE known finding %s now discharges (fixed?)\n", full)
				}
				continue
			}
			total++
			if o.ok() {
				discharged++
				bySolver[o.Solver]++
				if len(samples) < 12 || (len(samples) < 40 && o.Kind != "safety") {
					samples = append(samples, map[string]any{"obligation": full, "kind": o.Kind, "solver": o.Solver, "secs": round3(o.Secs), "smt_bytes": o.Bytes, "line": o.Line})
				}
			} else {
				fails = append(fails, fail{fr, o})
			}
			if verbose {
				fmt.Printf("  %-70s %-8s %-8s %.2fs\n", full, o.Result, o.Solver, o.Secs)
			}
		}
	}
	exit := 0
	for _, k := range sortedKeysF(known) {
		if seenKnown[k] {
			fmt.Printf("KNOWN-FINDING: property=%s %s — %s\n", prop, k, known[k].What)
		}
	}
	os.MkdirAll(filepath.Join(verif, "replays", prop), 0755)
	for _, f := range fails {
		full := f.fr.Short + "/" + f.o.Name
		rf := ReplayFile{Property: prop, Obligation: full, Function: f.fr.Key, Kind: f.o.Kind, File: relFile(f.fr.Contract.File, repo), Line: f.o.Line, Solver: f.o.Solver, Result: f.o.Result, Model: f.o.Model, Replay: "none", Pkg: f.fr.Contract.Pkg}
		if f.fr.WrapRerun {
			rf.Note = "a no-overflow side condition failed; obligations re-generated under exact wrap-around arithmetic"
		}
		if f.o.Result == "sat" && f.fr.Gen != nil {
			tryReplay(&rf, f.fr, f.o, repo, cs)
		}
		path := filepath.Join(verif, "replays", prop, sanitizeName(full)+".json")
		data, _ := json.MarshalIndent(rf, "", " ")
		os.WriteFile(path, data, 0644)
		suffix := ""
		if rf.Replay != "reproduced" {
			suffix = " no-failing-input-found"
		}
		fmt.Printf("VIOLATION property=%s replay=%s obligation=%s result=%s%s\n", prop, path, full, firstLine(f.o.Result), suffix)
		exit = 1
	}
	if len(vacuous) > 0 {
		fmt.Printf("ERROR vacuous contracts (cover queries not satisfiable): %s\n", strings.Join(vacuous, ", "))
		if exit == 0 {
			exit = 2
		}
	}
	wall := time.Since(t0).Seconds()
	fmt.Printf("%s %s: functions=%d obligations=%d discharged=%d covers=%d/%d known_findings=%d load=%.1fs solver=%.1fs(max %.1fs) wall=%.1fs\n",
		prop, tier, len(frs), total, discharged, coversOK, covers, knownCnt, l.secs, solverSecs, maxSecs, wall)
	if noEvidence {
		return exit
	}
	sort.Strings(funcs)
	tb := []string{
		"govc (this VC generator: go/ssa naive form -> SMT-LIB, loop/call/defer rules)",
		"go/packages, go/ssa, go/types (x/tools v0.50.0)",
		"z3 5.1.0, z3 4.8.12, cvc5 1.0 (portfolio; unsat = discharged)",
		"Go semantics: amd64 (int = 64 bit), no data races, lengths <= 2^48; append modelled with a fresh backing array",
	}
	tb = append(tb, sortedKeysB(trusted)...)
	assumptions := []string{"preconditions (requires) of functions under contract are checked at call sites that are themselves under contract and assumed at all other call sites"}
	assumptions = append(assumptions, sortedKeysB(unmodelled)...)
	if pm := loadPropMeta(verif, prop); pm != nil {
		assumptions = append(assumptions, pm.Assumptions...)
	}
	level := "proof"
	cov := map[string]any{
		"obligations":               total,
		"discharged":                discharged,
		"checker_cmd":               fmt.Sprintf("bin/govc check --property %s --tier %s  (per obligation: z3-new -T:N vc.smt2 | z3 | cvc5)", prop, tier),
		"trusted_base":              tb,
		"samples":                   samples,
		"functions_under_contract":  funcs,
		"vacuity_covers":            covers,
		"vacuity_covers_sat":        coversOK - coversUndecided,
		"vacuity_covers_undecided":  coversUndecided,
		"known_finding_obligations": knownCnt,
		"discharged_by_solver":      bySolver,
		"solver_time_s":             round3(solverSecs),
		"slowest_obligation_s":      round3(maxSecs),
		"load_ssa_s":                round3(l.secs),
		"contract_files":            relFiles(cs.Files, repo),
		"integers":                  "mathematical Int with explicit two's-complement wrap (narrow types) / proved no-overflow side conditions (64-bit); not machine arithmetic treated as mathematical",
	}
	ev := map[string]any{
		"property_id": prop,
		"tier":        tier,
		"seed":        seed,
		"level":       level,
		"coverage":    cov,
		"assumptions": assumptions,
		"wall_s":      round3(wall),
		"violations":  len(fails),
	}
	os.MkdirAll(filepath.Join(verif, "evidence"), 0755)
	data, _ := json.MarshalIndent(ev, "", " ")
	os.WriteFile(filepath.Join(verif, "evidence", prop+".json"), data, 0644)
	return exit
}

func loadPropMeta(verif, prop string) *PropMeta {
	data, err := os.ReadFile(filepath.Join(verif, "props", prop+".json"))
	if err != nil {
		return nil
	}
	var pm PropMeta
	if json.Unmarshal(data, &pm) != nil {
		return nil
	}
	return &pm
}

func round3(f float64) float64 { return float64(int(f*1000+0.5)) / 1000 }

func firstLine(s string) string {
	if i := strings.IndexByte(s, '\n'); i >= 0 {
		s = s[:i]
	}
	if len(s) > 160 {
		s = s[:160]
	}
	return strings.ReplaceAll(s, " ", "_")
}

func relFile(f, repo string) string {
	if r, err := filepath.Rel(repo, f); err == nil && !strings.HasPrefix(r, "..") {
		return r
	}
	return f
}

func relFiles(fs []string, repo string) []string {
	var out []string
	for _, f := range fs {
		out = append(out, relFile(f, repo))
	}
	return out
}

func sortedKeysF(m map[string]Finding) []string {
	var ks []string
	for k := range m {
		ks = append(ks, k)
	}
	sort.Strings(ks)
	return ks
}
