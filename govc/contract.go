package main

// Contract files: comment-only Go files `zz_verif_contracts.go` behind the build tag `verif`
// inside /repo (one per package), every contract line starting with `//@`. Assumed contracts on
// dependencies (stdlib etc.) live in /verif/contracts/trusted/*.spec in the same language without
// the `//@` prefix; every function there is implicitly `trusted`.

import (
	"bufio"
	"fmt"
	"os"
	"path/filepath"
	"regexp"
	"sort"
	"strconv"
	"strings"
)

type Clause struct {
	Label string
	Expr  string
	Props []string // non-empty: the clause is an obligation only of these properties
}

type Lemma struct {
	Loop   int
	Name   string
	Assume string
	Iter   int
	Assert string
	OnReturn string // default "false": the iteration must not return
}

type Contract struct {
	Pkg      string // import path of the package the function lives in
	Fn       string // Name or Recv.Name
	File     string
	Line     int
	Results  []string
	Params   []string // parameter names of the header (behaviour specs of function values bind by position)
	Props    []string
	Requires []Clause
	Assumes  []Clause
	Ensures  []Clause
	EnsPanic []Clause
	Modifies []string
	Keeps    []string
	Fresh    []Clause // [cond ::] expr — result object allocated during the call
	Invs     map[int][]Clause
	LoopMod  map[int][]string
	Lemmas   []Lemma
	NoPanic  bool
	Trusted  bool // assumed, not verified (listed in evidence)
	Pure     bool // no heap / ghost effect
	Inline   []string
	Observe  [][2]string // callee, param -> stored in ghost $obs
	NoReq    []string    // callees whose preconditions are not claimed at calls from this function
	GhostSet [][3]string // callee, ghost name, expr
	CallPre  [][3]string // label, callee, expr
	Inject   string      // parameter name for injectivity lemma on $obs
	Returns  string      // literal result (case-split instantiation)
	Opts     map[string]string
	Split    []string // "expr : v1, v2" case splits
	Masks    []int64
	Ghosts   map[string]string // function-local ghost declarations
	Nondet   bool              // trusted callee whose result is unconstrained but heap untouched
}

func (c *Contract) Key() string {
	if c.Pkg == "" {
		return c.Fn
	}
	return c.Pkg + "." + c.Fn
}

func (c *Contract) Opt(k string) string {
	if c == nil || c.Opts == nil {
		return ""
	}
	return c.Opts[k]
}

type ContractSet struct {
	ByKey  map[string]*Contract
	Ghosts map[string]string // name -> kind (int bool arrbool arrint)
	Pure   map[string]PureFn
	Files  []string
	Consts map[string]string
	FieldSpecs map[string]string // "Type.field" -> key of the behaviour spec contract
}

type PureFn struct {
	Name   string
	Params []string
	Ret    string // Int or Bool
	Body   string
	Opaque bool // used as an uninterpreted function; its definition is a pattern-guarded axiom
}

var labelRe = regexp.MustCompile(`^([A-Za-z_][A-Za-z0-9_.\-]*)(@[A-Z0-9,]+)?:\s+(.*)$`)

// splitLabel parses `label: expr` or `label@C17,C09: expr` (the clause then belongs only to the
// listed properties instead of all properties of its function).
func splitLabel(s string) Clause {
	s = strings.TrimSpace(s)
	if m := labelRe.FindStringSubmatch(s); m != nil && !strings.HasPrefix(m[3], ":") {
		c := Clause{Label: m[1], Expr: m[3]}
		if m[2] != "" {
			c.Props = strings.Split(m[2][1:], ",")
		}
		return c
	}
	return Clause{Expr: s}
}

var lastHeaderParams []string

// parseHeader parses `Name(params) (results)` or `Name r1 r2`.
func parseHeader(rest string) (string, []string) {
	rest = strings.TrimSpace(rest)
	i := strings.IndexAny(rest, "( ")
	if i < 0 {
		return rest, nil
	}
	name := rest[:i]
	tail := strings.TrimSpace(rest[i:])
	if !strings.HasPrefix(tail, "(") {
		return name, strings.Fields(tail)
	}
	// skip the parameter group
	depth, j := 0, 0
	for j = 0; j < len(tail); j++ {
		if tail[j] == '(' {
			depth++
		} else if tail[j] == ')' {
			depth--
			if depth == 0 {
				break
			}
		}
	}
	lastHeaderParams = nil
	for _, part := range strings.Split(tail[1:j], ",") { // parameter names: `a, b int` -> a, b
		f := strings.Fields(part)
		if len(f) > 0 {
			lastHeaderParams = append(lastHeaderParams, f[0])
		}
	}
	res := strings.TrimSpace(tail[j+1:])
	res = strings.TrimPrefix(res, "(")
	res = strings.TrimSuffix(res, ")")
	var names []string
	for _, part := range strings.Split(res, ",") {
		f := strings.Fields(part)
		if len(f) > 0 {
			names = append(names, f[0])
		}
	}
	return name, names
}

func (cs *ContractSet) parseFile(path, pkg string, prefix string, trusted bool) error {
	src := path
	if o, ok := overlayFiles[path]; ok { // must-fail corpus: a contract file can be overlaid like a source file
		src = o
	}
	f, err := os.Open(src)
	if err != nil {
		return err
	}
	defer f.Close()
	cs.Files = append(cs.Files, path)
	var cur *Contract
	sc := bufio.NewScanner(f)
	sc.Buffer(make([]byte, 1<<20), 1<<20)
	ln := 0
	var pending string
	for sc.Scan() {
		ln++
		l := sc.Text()
		if prefix != "" {
			t := strings.TrimSpace(l)
			if !strings.HasPrefix(t, prefix) {
				continue
			}
			l = t[len(prefix):]
		}
		l = strings.TrimSpace(l)
		if l == "" || strings.HasPrefix(l, "#") {
			continue
		}
		// continuation: a line ending in `\` joins the next one
		if strings.HasSuffix(l, "\\") {
			pending += strings.TrimSuffix(l, "\\") + " "
			continue
		}
		l = pending + l
		pending = ""
		bad := func(msg string) error { return fmt.Errorf("%s:%d: %s: %s", path, ln, msg, l) }
		kw := l
		rest := ""
		if i := strings.IndexAny(l, " \t"); i > 0 {
			kw, rest = l[:i], strings.TrimSpace(l[i+1:])
		}
		switch kw {
		case "package":
			pkg = rest
			cur = nil
		case "field":
			// field Type.f : behaviourSpec  - calls through this function-typed field obey that contract
			fs := strings.Fields(rest)
			if len(fs) != 3 || fs[1] != ":" {
				return bad("field Type.f : spec")
			}
			cs.FieldSpecs[fs[0]] = fs[2]
		case "ghost":
			fs := strings.Fields(rest)
			if len(fs) != 2 {
				return bad("ghost NAME KIND")
			}
			if cur != nil {
				if cur.Ghosts == nil {
					cur.Ghosts = map[string]string{}
				}
			}
			cs.Ghosts[fs[0]] = fs[1]
		case "const":
			fs := strings.Fields(rest)
			if len(fs) != 2 {
				return bad("const NAME VALUE")
			}
			cs.Consts[fs[0]] = fs[1]
		case "pure", "opaque":
			if cur != nil && rest == "" && kw == "pure" {
				cur.Pure = true
				break
			}
			// pure func name(a, b) Int = body
			r := strings.TrimPrefix(rest, "func ")
			eq := strings.Index(r, " = ")
			if eq < 0 {
				return bad("pure func NAME(args) Sort = body")
			}
			hd, body := r[:eq], strings.TrimSpace(r[eq+3:])
			lp, rp := strings.Index(hd, "("), strings.LastIndex(hd, ")")
			if lp < 0 || rp < lp {
				return bad("pure func header")
			}
			pf := PureFn{Name: strings.TrimSpace(hd[:lp]), Ret: strings.TrimSpace(hd[rp+1:]), Body: body, Opaque: kw == "opaque"}
			for _, a := range strings.Split(hd[lp+1:rp], ",") {
				if a = strings.TrimSpace(a); a != "" {
					pf.Params = append(pf.Params, a)
				}
			}
			if pf.Ret == "" {
				pf.Ret = "Int"
			}
			cs.Pure[pf.Name] = pf
		case "func":
			name, results := parseHeader(rest)
			cur = &Contract{Pkg: pkg, Fn: name, File: path, Line: ln, Results: results, Params: lastHeaderParams, Invs: map[int][]Clause{}, LoopMod: map[int][]string{}, Opts: map[string]string{}, Trusted: trusted}
			lastHeaderParams = nil
			if strings.Contains(name, "/") || (trusted && strings.Contains(name, ".") && pkg == "") {
				// fully qualified key given directly
				cur.Pkg, cur.Fn = "", name
			}
			if old, dup := cs.ByKey[cur.Key()]; dup {
				return bad("duplicate contract (first at " + old.File + ":" + strconv.Itoa(old.Line) + ")")
			}
			cs.ByKey[cur.Key()] = cur
		default:
			if cur == nil {
				return bad("clause outside func")
			}
			switch kw {
			case "property":
				cur.Props = append(cur.Props, strings.Fields(rest)...)
			case "requires":
				cur.Requires = append(cur.Requires, splitLabel(rest))
			case "assumes":
				// an entry assumption that is NOT checked at call sites (e.g. a fact the input syntax
				// guarantees); every use is listed among the unchecked assumptions in the evidence
				cur.Assumes = append(cur.Assumes, splitLabel(rest))
			case "ensures":
				cur.Ensures = append(cur.Ensures, splitLabel(rest))
			case "ensures_panic":
				cur.EnsPanic = append(cur.EnsPanic, splitLabel(rest))
			case "fresh":
				cur.Fresh = append(cur.Fresh, splitLabel(rest))
			case "modifies":
				cur.Modifies = append(cur.Modifies, strings.Fields(rest)...)
			case "keeps":
				// ghost variables that callees WITHOUT a contract are assumed not to change (listed assumption)
				cur.Keeps = append(cur.Keeps, strings.Fields(rest)...)
			case "nopanic":
				cur.NoPanic = true
			case "trusted":
				cur.Trusted = true
			case "nondet":
				cur.Nondet = true
			case "inline":
				cur.Inline = append(cur.Inline, strings.Fields(rest)...)
			case "norequires":
				// norequires CALLEE ...: the callee's preconditions belong to another property's model (e.g. the
				// single-operation staging protocol) and are not claimed at this function's calls; listed in the evidence
				cur.NoReq = append(cur.NoReq, strings.Fields(rest)...)
			case "observe":
				fs := strings.Fields(rest)
				if len(fs) != 2 {
					return bad("observe CALLEE PARAM")
				}
				cur.Observe = append(cur.Observe, [2]string{fs[0], fs[1]})
			case "ghostset":
				// ghostset CALLEE :: $name = expr   (caller-side ghost assignment right after each call of CALLEE;
				// expr may use the callee's parameter names as arg_x and its result names)
				i := strings.Index(rest, "::")
				eq := strings.Index(rest, "=")
				if i < 0 || eq < i {
					return bad("ghostset CALLEE :: $name = expr")
				}
				cur.GhostSet = append(cur.GhostSet, [3]string{strings.TrimSpace(rest[:i]), strings.TrimSpace(rest[i+2 : eq]), strings.TrimSpace(rest[eq+1:])})
			case "callpre":
				i := strings.Index(rest, "::")
				if i < 0 {
					return bad("callpre CALLEE :: expr")
				}
				cl := splitLabel(rest[i+2:])
				cur.CallPre = append(cur.CallPre, [3]string{cl.Label, strings.TrimSpace(rest[:i]), cl.Expr})
			case "returns":
				cur.Returns = rest
			case "injective":
				cur.Inject = rest
			case "opt":
				fs := strings.Fields(rest)
				if len(fs) == 1 {
					cur.Opts[fs[0]] = "1"
				} else if len(fs) == 2 {
					cur.Opts[fs[0]] = fs[1]
				} else {
					return bad("opt KEY [VALUE]")
				}
			case "masks":
				for _, m := range strings.Fields(rest) {
					v, err := strconv.ParseInt(m, 0, 64)
					if err != nil {
						return bad("masks")
					}
					cur.Masks = append(cur.Masks, v)
				}
			case "split":
				cur.Split = append(cur.Split, rest)
			case "looplemma":
				// looplemma K NAME N :: assume ;; assert
				var k, n int
				var name string
				if _, err := fmt.Sscanf(rest, "%d %s %d", &k, &name, &n); err != nil {
					return bad("looplemma K NAME N :: assume ;; assert")
				}
				body := rest[strings.Index(rest, "::")+2:]
				parts := strings.SplitN(body, ";;", 3)
				if len(parts) < 2 {
					return bad("looplemma needs ;;")
				}
				lm := Lemma{Loop: k, Name: name, Iter: n, Assume: strings.TrimSpace(parts[0]), Assert: strings.TrimSpace(parts[1])}
				if len(parts) == 3 { // optional: what must hold if the function returns during the iteration(s)
					lm.OnReturn = strings.TrimSpace(parts[2])
				}
				cur.Lemmas = append(cur.Lemmas, lm)
			case "loop":
				fs := strings.SplitN(rest, " ", 3)
				if len(fs) < 3 {
					return bad("loop K invariant|modifies ...")
				}
				k, err := strconv.Atoi(fs[0])
				if err != nil {
					return bad("loop ordinal")
				}
				switch fs[1] {
				case "invariant":
					cur.Invs[k] = append(cur.Invs[k], splitLabel(fs[2]))
				case "modifies":
					cur.LoopMod[k] = append(cur.LoopMod[k], strings.Fields(fs[2])...)
				default:
					return bad("loop K invariant|modifies ...")
				}
			default:
				return bad("unknown clause")
			}
		}
	}
	return sc.Err()
}

const modulePath = "github.com/pdfcpu/pdfcpu"

// loadContracts walks repo for zz_verif_contracts.go files and trustedDir for *.spec files.
func loadContracts(repo, trustedDir string) (*ContractSet, error) {
	cs := &ContractSet{ByKey: map[string]*Contract{}, Ghosts: map[string]string{}, Pure: map[string]PureFn{}, Consts: map[string]string{}, FieldSpecs: map[string]string{}}
	var files []string
	err := filepath.Walk(repo, func(p string, info os.FileInfo, err error) error {
		if err != nil {
			return nil
		}
		if info.IsDir() && (info.Name() == ".git" || info.Name() == "testdata" || info.Name() == "samples") {
			return filepath.SkipDir
		}
		if !info.IsDir() && info.Name() == "zz_verif_contracts.go" {
			files = append(files, p)
		}
		return nil
	})
	if err != nil {
		return nil, err
	}
	sort.Strings(files)
	for _, f := range files {
		rel, _ := filepath.Rel(repo, filepath.Dir(f))
		pkg := modulePath
		if rel != "." {
			pkg += "/" + filepath.ToSlash(rel)
		}
		if err := cs.parseFile(f, pkg, "//@", false); err != nil {
			return nil, err
		}
	}
	specs, _ := filepath.Glob(filepath.Join(trustedDir, "*.spec"))
	sort.Strings(specs)
	for _, f := range specs {
		if err := cs.parseFile(f, "", "", true); err != nil {
			return nil, err
		}
	}
	return cs, nil
}

func hasProp(c *Contract, id string) bool {
	for _, p := range c.Props {
		if p == id {
			return true
		}
	}
	return false
}
