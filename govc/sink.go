package main

import (
	"fmt"
	"go/types"
	"golang.org/x/tools/go/ssa"
)

// Byte sinks: a value of type io.ByteWriter / io.Writer / io.StringWriter is modelled as an object
// that records the bytes written to it (contents in Hs[ref], length in Buffer.len) - the same
// representation as a local bytes.Buffer, so a *bytes.Buffer passed as a writer stays the same
// object. Assumption (listed): the bytes are appended to the sink's record whether or not the
// writer reports an error; its error result is unconstrained.
func (g *Gen) sinkInvoke(st *State, call *ssa.CallCommon, args []Val, result ssa.Value) bool {
	recvT := call.Value.Type().String()
	if recvT != "io.ByteWriter" && recvT != "io.Writer" && recvT != "io.StringWriter" && recvT != "hash.Hash" {
		return false
	}
	r, ok := bufRef(args[0])
	if !ok {
		return false
	}
	rt := callResults(call)
	switch call.Method.Name() {
	case "WriteByte":
		g.bufAppendByte(st, r, args[1].T)
		e := g.symFor(rt.At(0).Type(), "sinkerr", st)
		g.foreignErrs(st, e)
		g.setResult(result, e)
	case "Write", "WriteString":
		if args[1].Len == "" {
			return false
		}
		g.bufAppendSeq(st, r, args[1])
		res := g.symFor(rt, "sinkres", st)
		g.assume(st, "(=> (= "+res.Tup[1].T+" 0) (= "+res.Tup[0].T+" "+args[1].Len+"))")
		g.foreignErrs(st, res)
		g.setResult(result, res)
	case "Sum":
		if recvT != "hash.Hash" {
			return false
		}
		// digest of the record: a fresh slice of unconstrained bytes, at least as long as its argument
		pre := args[1]
		nr := g.freshRef(st)
		_ = g.hsGet(st)
		ln := g.newSym("sumlen", "Int")
		pl := pre.Len
		if pl == "" {
			pl = "0"
		}
		g.assume(st, fmt.Sprintf("(and (<= %s %s) (<= %s (+ %s 64)) (=> (= %s 0) (>= %s 16)))", pl, ln, ln, pl, pl, ln))
		if n, ok := g.hashSize[r]; ok {
			// a hash object made by a known constructor (md5.New: 16 bytes ...): Sum appends exactly Size() bytes
			g.assume(st, fmt.Sprintf("(= %s (+ %s %d))", ln, pl, n))
		}
		g.noteElemRange(st, nr, types.Typ[types.Byte])
		g.setResult(result, Val{Ref: nr, Len: ln, Off: "0", Kind: "slice", Ty: rt.At(0).Type()})
	case "Reset":
		if recvT != "hash.Hash" {
			return false
		}
		g.frameSink(st, r)
		g.bufSetLen(st, r, "0") // the record starts again
	default:
		return false
	}
	g.trustedUsed["io.Writer/io.ByteWriter values are byte sinks: every Write*/WriteByte appends its argument to the sink's record; the returned error is unconstrained"] = true
	return true
}
