package main

import (
	"golang.org/x/tools/go/ssa"
)

// Byte sinks: a value of type io.ByteWriter / io.Writer / io.StringWriter is modelled as an object
// that records the bytes written to it (contents in Hs[ref], length in Buffer.len) - the same
// representation as a local bytes.Buffer, so a *bytes.Buffer passed as a writer stays the same
// object. Assumption (listed): the bytes are appended to the sink's record whether or not the
// writer reports an error; its error result is unconstrained.
func (g *Gen) sinkInvoke(st *State, call *ssa.CallCommon, args []Val, result ssa.Value) bool {
	recvT := call.Value.Type().String()
	if recvT != "io.ByteWriter" && recvT != "io.Writer" && recvT != "io.StringWriter" {
		return false
	}
	r, ok := bufRef(args[0])
	if !ok {
		return false
	}
	rt := callResults(call)
	switch call.Method.Name() {
	case "WriteByte":
		g.bufAppendByte(st, r, args[1].T)
		e := g.symFor(rt.At(0).Type(), "sinkerr", st)
		g.foreignErrs(st, e)
		g.setResult(result, e)
	case "Write", "WriteString":
		if args[1].Len == "" {
			return false
		}
		g.bufAppendSeq(st, r, args[1])
		res := g.symFor(rt, "sinkres", st)
		g.assume(st, "(=> (= "+res.Tup[1].T+" 0) (= "+res.Tup[0].T+" "+args[1].Len+"))")
		g.foreignErrs(st, res)
		g.setResult(result, res)
	default:
		return false
	}
	g.trustedUsed["io.Writer/io.ByteWriter values are byte sinks: every Write*/WriteByte appends its argument to the sink's record; the returned error is unconstrained"] = true
	return true
}
