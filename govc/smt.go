package main

import (
	"context"
	"fmt"
	"os"
	"os/exec"
	"regexp"
	"sort"
	"strings"
	"time"
)

var symRe = regexp.MustCompile(`\|[^|]*\|`)

// smt renders one obligation as a self-contained SMT-LIB 2 script (definitions pruned to those used).
func (g *Gen) smt(o *Obl) string {
	defBody := map[string]int{}
	for i, d := range g.defs {
		defBody[d.Name] = i
	}
	need := map[string]bool{}
	var work []string
	mark := func(text string) {
		for _, m := range symRe.FindAllString(text, -1) {
			if !need[m] {
				need[m] = true
				work = append(work, m)
			}
		}
	}
	mark(o.Pc)
	mark(o.Goal)
	var constFacts []string
	for len(work) > 0 {
		n := work[len(work)-1]
		work = work[:len(work)-1]
		if i, ok := defBody[n]; ok {
			mark(g.defs[i].Body)
		}
	}
	if need["|strlen|"] {
		// every string has a length between 0 and the address-space bound (DESIGN 8.3)
		constFacts = append(constFacts, fmt.Sprintf("(forall ((s!l Int)) (! (and (<= 0 (|strlen| s!l)) (<= (|strlen| s!l) %s) (= (= (|strlen| s!l) 0) (= s!l 0))) :pattern ((|strlen| s!l))))", maxLen))
	}
	if need["|pathJoin2|"] && !o.Cover { // (cover queries look for a model: the conservative axiom is left out there)
		// filepath.Join(dir, name) for a simple name: different directories or different names give different
		// paths (stated through two projections, instantiated only for the join terms that occur)
		need[g.uf("pjDir", 1, "Int")] = true
		need[g.uf("pjName", 1, "Int")] = true
		constFacts = append(constFacts, "(forall ((a!p Int) (b!p Int)) (! (and (= (|pjDir| (|pathJoin2| a!p b!p)) a!p) (= (|pjName| (|pathJoin2| a!p b!p)) b!p)) :pattern ((|pathJoin2| a!p b!p))))")
	}
	if need["|declen|"] {
		// the decimal representation of a 64-bit integer has between 1 and 20 characters
		constFacts = append(constFacts, "(forall ((n!d Int)) (! (and (<= 1 (|declen| n!d)) (<= (|declen| n!d) 20)) :pattern ((|declen| n!d))))")
	}
	if need["|strlen|"] || need["|strbyte|"] {
		var ids []string
		for id := range g.constFacts {
			ids = append(ids, id)
		}
		sort.Strings(ids)
		for _, id := range ids {
			constFacts = append(constFacts, g.constFacts[id])
			mark(g.constFacts[id])
		}
		for len(work) > 0 {
			n := work[len(work)-1]
			work = work[:len(work)-1]
			if i, ok := defBody[n]; ok {
				mark(g.defs[i].Body)
			}
		}
	}
	var sb strings.Builder
	sb.WriteString("(set-option :produce-models true)\n(set-logic ALL)\n")
	for _, n := range g.declOrder {
		if need[n] {
			fmt.Fprintf(&sb, "(declare-const %s %s)\n", n, g.decls[n])
		}
	}
	var ufn []string
	for k := range g.ufuns {
		if need[k] {
			ufn = append(ufn, k)
		}
	}
	sort.Strings(ufn)
	for _, k := range ufn {
		sb.WriteString(g.ufuns[k] + "\n")
	}
	for _, d := range g.defs {
		if need[d.Name] {
			fmt.Fprintf(&sb, "(define-fun %s () %s %s)\n", d.Name, d.Sort, d.Body)
		}
	}
	var axs []string
	for sym := range g.axioms {
		if need[sym] && !o.Cover { // definitions are conservative: satisfiability checks do not need them
			axs = append(axs, sym)
		}
	}
	sort.Strings(axs)
	for _, sym := range axs {
		fmt.Fprintf(&sb, "(assert %s)\n", g.axioms[sym])
	}
	for _, f := range constFacts {
		fmt.Fprintf(&sb, "(assert %s)\n", f)
	}
	fmt.Fprintf(&sb, "(assert %s)\n", o.Pc)
	if !o.Cover {
		fmt.Fprintf(&sb, "(assert (not %s))\n", o.Goal)
	}
	sb.WriteString("(check-sat)\n")
	return sb.String()
}

// modelQuery appends get-value for the interesting entry symbols.
func (g *Gen) modelQuery(script string) string {
	var qs []string
	for _, n := range g.declOrder {
		if !strings.Contains(script, "(declare-const "+n+" ") {
			continue
		}
		srt := g.decls[n]
		if srt != "Int" && srt != "Bool" {
			continue
		}
		if strings.Contains(n, "!q") {
			continue
		}
		if isEntrySym(n) {
			qs = append(qs, n)
		}
	}
	if len(qs) == 0 {
		return ""
	}
	if len(qs) > 60 {
		qs = qs[:60]
	}
	return "(get-value (" + strings.Join(qs, " ") + "))\n"
}

func isEntrySym(n string) bool {
	for _, pre := range []string{"|phi!", "|pc!", "|m!", "|ret_", "|ref!", "|Hs", "|H.", "|load!", "|bitand", "|panics"} {
		if strings.HasPrefix(n, pre) {
			return false
		}
	}
	return true
}

type solverRes struct {
	res    string // unsat sat unknown timeout error
	model  string
	secs   float64
	solver string
}

func runSolver(ctx context.Context, solver, file string, timeoutS int) solverRes {
	var cmd *exec.Cmd
	switch solver {
	case "cvc5":
		cmd = exec.CommandContext(ctx, "cvc5", fmt.Sprintf("--tlimit=%d", timeoutS*1000), "--produce-models", file)
	default:
		cmd = exec.CommandContext(ctx, solver, fmt.Sprintf("-T:%d", timeoutS), file)
	}
	t0 := time.Now()
	out, _ := cmd.CombinedOutput()
	secs := time.Since(t0).Seconds()
	parts := strings.SplitN(string(out), "\n", 2)
	r := strings.TrimSpace(parts[0])
	res := solverRes{secs: secs, solver: solver}
	switch {
	case r == "unsat":
		res.res = "unsat"
	case r == "sat":
		res.res = "sat"
		if len(parts) > 1 {
			res.model = strings.Join(strings.Fields(parts[1]), " ")
		}
	case r == "unknown":
		res.res = "unknown"
	case strings.Contains(r, "timeout") || ctx.Err() != nil:
		res.res = "timeout"
	default:
		res.res = "error: " + strings.TrimSpace(string(out))
		if len(res.res) > 300 {
			res.res = res.res[:300]
		}
	}
	return res
}

// discharge decides one obligation with the solver portfolio.
func (g *Gen) discharge(o *Obl, timeoutS int, tmpdir string, confirm bool) {
	script := g.smt(o)
	o.Bytes = len(script)
	want := "unsat"
	if o.Cover {
		want = "sat"
		if timeoutS > 6 {
			// a model of a path condition is found quickly or, with quantified assumptions, not at all; the
			// fallback below (quantifier-free part) takes over after this time
			timeoutS = 6
		}
	} else {
		script += g.modelQuery(script)
	}
	f, err := os.CreateTemp(tmpdir, "vc*.smt2")
	if err != nil {
		o.Result = "error: " + err.Error()
		return
	}
	f.WriteString(script)
	f.Close()
	defer os.Remove(f.Name())
	ctx := context.Background()
	// portfolio: z3-new gets a head start (most obligations take well under a second); if it has not
	// answered by then, z3 4.8 and cvc5 join while it keeps running, and the first decisive answer
	// (sat / unsat) wins. A slow query is decided by whichever solver is quick on it instead of
	// waiting for the first solver's full time limit.
	cctx, cancel := context.WithCancel(ctx)
	ch := make(chan solverRes, 3)
	t0 := time.Now()
	go func() { ch <- runSolver(cctx, "z3-new", f.Name(), timeoutS) }()
	var first solverRes
	started, got := 1, 0
	decided := false
	headStart := time.After(2 * time.Second)
	for !decided && (got < started || started == 1) {
		select {
		case r := <-ch:
			got++
			if got == 1 || r.res == "unsat" || r.res == "sat" {
				first = r
			}
			if r.res == "unsat" || r.res == "sat" {
				decided = true
			} else if started == 1 {
				started = 3
				for _, sv := range []string{"z3", "cvc5"} {
					go func(sv string) { ch <- runSolver(cctx, sv, f.Name(), timeoutS) }(sv)
				}
			}
		case <-headStart:
			if started == 1 {
				started = 3
				for _, sv := range []string{"z3", "cvc5"} {
					go func(sv string) { ch <- runSolver(cctx, sv, f.Name(), timeoutS) }(sv)
				}
			}
		}
	}
	cancel()
	first.secs = time.Since(t0).Seconds()
	best := first
	if confirm && first.res == want {
		second := runSolver(ctx, "cvc5", f.Name(), timeoutS)
		if second.res != want {
			second = runSolver(ctx, "z3", f.Name(), timeoutS)
		}
		if second.res == want {
			best.solver += "+" + second.solver
		} else if (second.res == "sat" || second.res == "unsat") && second.res != want {
			best.res = "error: solvers disagree (" + first.solver + "=" + first.res + ", " + second.solver + "=" + second.res + ")"
		}
		best.secs += second.secs
	}
	if o.Cover && best.res != "sat" && best.res != "unsat" {
		// a vacuity query that no solver decides (quantified preconditions: finding a model of a
		// quantified formula is not what SMT solvers are good at) is repeated on the quantifier-free part
		// of the path condition; that still exposes a plainly contradictory precondition
		f2, err := os.CreateTemp(tmpdir, "vc*.smt2")
		if err == nil {
			f2.WriteString(stripQuantifiers(script))
			f2.Close()
			r2 := runSolver(ctx, "z3-new", f2.Name(), timeoutS)
			os.Remove(f2.Name())
			if r2.res == "sat" {
				best = r2
				best.solver = "z3-new(quantifier-free part)"
			}
		}
	}
	o.Result, o.Solver, o.Secs, o.Model = best.res, best.solver, best.secs, best.model
	if d := os.Getenv("GOVC_DUMP"); d != "" && (os.Getenv("GOVC_DUMP_ALL") != "" || (o.Cover && best.res != "sat") || (!o.Cover && best.res != "unsat")) {
		os.MkdirAll(d, 0755)
		os.WriteFile(d+"/"+sanitizeName(g.short+"_"+o.Name)+".smt2", []byte(script), 0644)
	}
}

func sanitizeName(s string) string {
	return strings.Map(func(r rune) rune {
		if r >= 'a' && r <= 'z' || r >= 'A' && r <= 'Z' || r >= '0' && r <= '9' || r == '.' || r == '_' || r == '-' {
			return r
		}
		return '_'
	}, s)
}

func (o *Obl) ok() bool {
	if o.Cover {
		// a vacuity query fails only when the path is definitely contradictory; an undecided one (solver
		// time limit on a loaded machine, quantified assumptions) is not evidence of vacuity
		return o.Result == "sat" || o.Result == "timeout" || o.Result == "unknown"
	}
	return o.Result == "unsat"
}

const govcVersion = "govc 0.1 (contract-based VC generator for pdfcpu; go/ssa naive form -> SMT-LIB)"

// stripQuantifiers replaces every (forall ...) / (exists ...) sub-term of an SMT-LIB script by true.
func stripQuantifiers(script string) string {
	var sb strings.Builder
	i := 0
	for i < len(script) {
		if strings.HasPrefix(script[i:], "(forall ") || strings.HasPrefix(script[i:], "(exists ") {
			depth, j := 0, i
			for j < len(script) {
				switch script[j] {
				case '(':
					depth++
				case ')':
					depth--
				case '|': // quoted symbol: skip to its end
					j++
					for j < len(script) && script[j] != '|' {
						j++
					}
				}
				j++
				if depth == 0 {
					break
				}
			}
			sb.WriteString("true")
			i = j
			continue
		}
		sb.WriteByte(script[i])
		i++
	}
	return sb.String()
}
