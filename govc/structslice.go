package main

// Slices / arrays whose elements are structs: one array-of-arrays per struct field, keyed
// "Type.field" (slice-typed fields: three of them, "#off" and "#len" suffixes), all indexed by the
// slice's backing reference and the element position - the per-field analogue of Hs.

import (
	"fmt"
	"go/types"
	"sort"
	"strings"
)

const hsfSortInt = "(Array Int (Array Int Int))"
const hsfSortBool = "(Array Int (Array Int Bool))"

func structElem(t types.Type) (*types.Struct, types.Type, bool) {
	if t == nil {
		return nil, nil, false
	}
	var el types.Type
	switch u := t.Underlying().(type) {
	case *types.Slice:
		el = u.Elem()
	case *types.Array:
		el = u.Elem()
	case *types.Pointer:
		if a, ok := u.Elem().Underlying().(*types.Array); ok {
			el = a.Elem()
		}
	}
	if el == nil {
		return nil, nil, false
	}
	s, ok := el.Underlying().(*types.Struct)
	return s, el, ok
}

func (g *Gen) hsfGet(st *State, key string, boolSort bool) string {
	if a, ok := st.hsf[key]; ok {
		return a
	}
	n := "|Hsf0." + key + "|"
	if _, ok := g.decls[n]; !ok {
		srt := hsfSortInt
		if boolSort {
			srt = hsfSortBool
		}
		g.decls[n] = srt
		g.declOrder = append(g.declOrder, n)
		if g.hsfSorts == nil {
			g.hsfSorts = map[string]string{}
		}
		g.hsfSorts[key] = srt
	}
	return n
}

func (g *Gen) hsfSet(st *State, key, ref, idx, val string, boolSort bool) {
	cur := g.hsfGet(st, key, boolSort)
	st.hsf[key] = g.def("Hsf", g.hsfSorts[key], fmt.Sprintf("(store %s %s (store (select %s %s) %s %s))", cur, ref, cur, ref, idx, val))
}

// elemFieldLoad reads field `key` (of type ft) of element idx of backing store ref.
func (g *Gen) elemFieldLoad(st0 *State, key, ref, idx string, ft types.Type, hsfOf func(string, bool) string) Val {
	st := st0
	if strings.Contains(idx, "!q") || strings.Contains(ref, "!q") {
		st = newState() // inside a quantifier: range facts about the bound element must not leak into the path condition
	}
	rd := func(k string, b bool) string { return fmt.Sprintf("(select (select %s %s) %s)", hsfOf(k, b), ref, idx) }
	if isBoolType(ft) {
		return Val{T: rd(key, true), Kind: "bool"}
	}
	if lo, hi, ok := rangeOf(ft); ok {
		e := rd(key, false)
		g.assume(st, fmt.Sprintf("(and (<= %s %s) (<= %s %s))", lo, e, e, hi))
		return Val{T: e, Kind: "int"}
	}
	switch u := ft.Underlying().(type) {
	case *types.Basic:
		if u.Info()&types.IsString != 0 && g.opaqueStr {
			return Val{T: rd(key, false), Kind: "int"}
		}
	case *types.Pointer, *types.Signature:
		e := rd(key, false)
		g.assume(st, fmt.Sprintf("(>= %s 0)", e))
		return Val{T: e, Kind: "opaque", Ty: ft}
	case *types.Interface:
		return Val{T: rd(key, false), Kind: "err", Ty: ft}
	case *types.Slice:
		r, o, l := rd(key, false), rd(key+"#off", false), rd(key+"#len", false)
		g.assume(st, fmt.Sprintf("(and (>= %s 0) (<= 0 %s) (<= %s %s) (<= 0 %s) (<= %s %s) (=> (= %s 0) (= %s 0)))", r, o, o, maxLen, l, l, maxLen, r, l))
		known := false
		for _, x := range st.refs {
			if x == r {
				known = true
			}
		}
		if !known {
			st.refs = append(st.refs, r)
		}
		g.noteElemRange(st, r, u.Elem())
		return Val{Ref: r, Off: o, Len: l, Kind: "slice", Ty: ft}
	case *types.Struct:
		v := Val{Kind: "struct", Ty: ft}
		for i := 0; i < u.NumFields(); i++ {
			v.Tup = append(v.Tup, g.elemFieldLoad(st, key+"."+u.Field(i).Name(), ref, idx, u.Field(i).Type(), hsfOf))
		}
		return v
	}
	return g.symFor(ft, "elemfield", st)
}

func (g *Gen) elemFieldStore(st *State, key, ref, idx string, ft types.Type, v Val) {
	if isBoolType(ft) {
		g.hsfSet(st, key, ref, idx, v.T, true)
		return
	}
	switch u := ft.Underlying().(type) {
	case *types.Slice:
		if v.Ref == "" {
			if v.Len == "0" || v.T == "" { // nil / empty
				v.Ref, v.Off, v.Len = "0", "0", "0"
			} else {
				panic(oos("store of a value-form sequence into a struct element"))
			}
		}
		g.hsfSet(st, key, ref, idx, v.Ref, false)
		g.hsfSet(st, key+"#off", ref, idx, v.Off, false)
		g.hsfSet(st, key+"#len", ref, idx, v.Len, false)
		return
	case *types.Struct:
		for i := 0; i < u.NumFields(); i++ {
			if i < len(v.Tup) {
				g.elemFieldStore(st, key+"."+u.Field(i).Name(), ref, idx, u.Field(i).Type(), v.Tup[i])
			}
		}
		return
	case *types.Basic:
		if u.Info()&types.IsString != 0 && !g.opaqueStr {
			return // content of non-opaque strings inside struct elements is not modelled (reads are fresh)
		}
	}
	t := v.T
	if v.Kind == "map" {
		t = v.Ref
	}
	if t == "" {
		t = "0"
	}
	g.hsfSet(st, key, ref, idx, t, false)
}

// structFieldKeys lists the (key, type) pairs of the scalar leaves of struct type t under prefix.
func structFieldKeys(prefix string, s *types.Struct, out *[][2]string) {
	for i := 0; i < s.NumFields(); i++ {
		k := prefix + "." + s.Field(i).Name()
		ft := s.Field(i).Type()
		switch u := ft.Underlying().(type) {
		case *types.Struct:
			structFieldKeys(k, u, out)
		case *types.Slice:
			*out = append(*out, [2]string{k, "int"}, [2]string{k + "#off", "int"}, [2]string{k + "#len", "int"})
		default:
			srt := "int"
			if isBoolType(ft) {
				srt = "bool"
			}
			*out = append(*out, [2]string{k, srt})
		}
	}
}

// copyStructElems makes the field arrays of fresh backing store nr hold a[aOff..+aLen) ++ b[bOff..+bLen).
func (g *Gen) copyStructElems(st *State, elT types.Type, s *types.Struct, nr string, a, b Val) {
	var keys [][2]string
	structFieldKeys(typeName(elT), s, &keys)
	for _, k := range keys {
		isB := k[1] == "bool"
		cur := g.hsfGet(st, k[0], isB)
		aArr := fmt.Sprintf("(select %s %s)", cur, zeroRef(a.Ref))
		bArr := fmt.Sprintf("(select %s %s)", cur, zeroRef(b.Ref))
		srt, inner := hsfSortInt, "(Array Int Int)"
		if isB {
			srt, inner = hsfSortBool, "(Array Int Bool)"
		}
		n := g.seqJoinSort(st, "sf", inner, aArr, a.Off, a.Len, bArr, b.Off, b.Len, "0")
		st.hsf[k[0]] = g.def("Hsf", srt, fmt.Sprintf("(store %s %s %s)", cur, nr, n))
	}
}

func zeroRef(r string) string {
	if r == "" {
		return "0"
	}
	return r
}

func (g *Gen) havocHsf(st *State, written []string, all bool) {
	var keys []string
	for k := range g.hsfSorts {
		keys = append(keys, k)
	}
	sort.Strings(keys)
	for _, k := range keys {
		old := g.hsfGet(st, k, g.hsfSorts[k] == hsfSortBool)
		nw := g.newSym("Hsf."+strings.ReplaceAll(k, "#", "_"), g.hsfSorts[k])
		if !all {
			for _, r := range st.refs {
				guard := "true"
				skip := false
				for _, w := range written {
					if w == r {
						skip = true
						break
					}
					guard = and(guard, fmt.Sprintf("(not (= %s %s))", r, w))
				}
				if skip {
					continue
				}
				g.assume(st, fmt.Sprintf("(=> %s (= (select %s %s) (select %s %s)))", guard, nw, r, old, r))
			}
		}
		st.hsf[k] = nw
	}
}

func isStructType(t types.Type) bool {
	_, ok := t.Underlying().(*types.Struct)
	return ok
}

// specElemField evaluates s[k].f (possibly f.g...) in a specification.
func (g *Gen) specElemField(st *State, a Val, fname, src string) Val {
	hsfOf := func(k string, b bool) string {
		if a.Heap != "" { // old(): the entry version of the field arrays
			if o, ok := g.entryHsf[k]; ok {
				return o
			}
			n := "|Hsf0." + k + "|"
			if _, ok := g.decls[n]; !ok {
				srt := hsfSortInt
				if b {
					srt = hsfSortBool
				}
				g.decls[n] = srt
				g.declOrder = append(g.declOrder, n)
				if g.hsfSorts == nil {
					g.hsfSorts = map[string]string{}
				}
				g.hsfSorts[k] = srt
			}
			return n
		}
		return g.hsfGet(st, k, b)
	}
	if a.Kind == "elemstruct" {
		stt, ok := a.Ty.Underlying().(*types.Struct)
		if !ok {
			panic(specErr{"spec: field of a non-struct element in " + src})
		}
		for i := 0; i < stt.NumFields(); i++ {
			if stt.Field(i).Name() == fname {
				key := typeName(a.Ty)
				if a.Obj != "" {
					key = a.Obj
				}
				ft := stt.Field(i).Type()
				if isStructType(ft) { // nested struct: stay symbolic, descend on the next ".f"
					return Val{Kind: "elemstruct", Ref: a.Ref, Idx: a.Idx, Ty: ft, Heap: a.Heap, Obj: key + "." + fname}
				}
				v := g.elemFieldLoad(st, key+"."+fname, a.Ref, a.Idx, ft, hsfOf)
				if a.Heap != "" && v.Ref != "" {
					v.Heap = a.Heap
				}
				return v
			}
		}
		// promoted field of a struct embedded by value in the element (staged[j].outFile with
		// stagedCertificateImport embedding certificateImport): descend through the embedded struct
		if emb := embeddedWith(stt, fname); emb >= 0 {
			ef := stt.Field(emb)
			if isStructType(ef.Type()) {
				key := typeName(a.Ty)
				if a.Obj != "" {
					key = a.Obj
				}
				inner := Val{Kind: "elemstruct", Ref: a.Ref, Idx: a.Idx, Ty: ef.Type(), Heap: a.Heap, Obj: key + "." + ef.Name()}
				return g.specElemField(st, inner, fname, src)
			}
		}
		panic(specErr{"spec: no field " + fname + " in element type " + a.Ty.String()})
	}
	if a.Kind == "struct" && a.Ty != nil {
		if stt, ok := a.Ty.Underlying().(*types.Struct); ok {
			if i := fieldIndex(stt, fname); i >= 0 && i < len(a.Tup) {
				v := a.Tup[i]
				if v.Ty == nil {
					v.Ty = stt.Field(i).Type()
				}
				return v
			}
		}
	}
	if a.Kind == "opaque" && a.T != "" && a.Ty != nil {
		if pt, ok := a.Ty.Underlying().(*types.Pointer); ok {
			if stt, ok := pt.Elem().Underlying().(*types.Struct); ok {
				if i := fieldIndex(stt, fname); i >= 0 {
					return g.ptrFieldSpec(st, a, pt, i, a.Heap != "")
				}
			}
		}
	}
	panic(specErr{"spec: ." + fname + " applied to a value that is not a struct element in " + src})
}

// ptrFieldSpec reads field i of the struct a pointer value points to, in a specification (isOld: in
// the entry heap).
func (g *Gen) ptrFieldSpec(st *State, a Val, pt *types.Pointer, i int, isOld bool) Val {
	key, ft := g.heapKey(pt, i)
	heapOf := func(k string) string {
		if _, ok := g.heapSort[k]; !ok {
			g.heapSort[k] = "(Array Int Int)"
		}
		if isOld {
			return g.entryHeapOf(k)
		}
		return g.heapGet(st, k)
	}
	e := fmt.Sprintf("(select %s %s)", heapOf(key), a.T)
	hp := ""
	if isOld {
		hp = g.entryHs
	}
	switch u := ft.Underlying().(type) {
	case *types.Slice:
		off := fmt.Sprintf("(select %s %s)", heapOf(key+"#off"), a.T)
		ln := fmt.Sprintf("(select %s %s)", heapOf(key+"#len"), a.T)
		g.assume(st, fmt.Sprintf("(and (>= %s 0) (<= 0 %s) (<= %s %s) (<= 0 %s) (<= %s %s) (=> (= %s 0) (= %s 0)))", e, off, off, maxLen, ln, ln, maxLen, e, ln))
		return Val{Ref: e, Off: off, Len: ln, Kind: "slice", Ty: ft, Heap: hp}
	case *types.Pointer:
		return Val{T: e, Kind: "opaque", Ty: ft, Heap: hp}
	case *types.Interface:
		return Val{T: e, Kind: "err", Ty: ft}
	case *types.Map:
		return g.mapFromRef(st, e, u, ft)
	}
	if g.heapSort[key] == "(Array Int Bool)" {
		return Val{T: e, Kind: "bool", Ty: ft}
	}
	return Val{T: e, Kind: "int", Ty: ft}
}
