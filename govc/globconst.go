package main

import (
	"fmt"
	"os"
	"go/constant"
	"go/types"

	"golang.org/x/tools/go/ssa"
)

// Package-level byte tables: a variable `var pad = []byte{0x28, 0xBF, ...}` is initialised in the
// package's init function by storing constants into a new array and assigning a slice of it. When that
// is the only assignment to the variable anywhere in its package (an unexported variable cannot be
// assigned elsewhere), every load of the variable yields a slice of that length whose elements are
// those constants. Assumed (listed in the evidence when used): no code writes the ELEMENTS of the table
// through the variable or an alias of it.
var constGlobalCache = map[string][]int64{}
var constGlobalDone = map[string]bool{}

func constGlobalBytes(gl *ssa.Global) ([]int64, bool) {
	key := globKey(gl)
	if constGlobalDone[key] {
		v, ok := constGlobalCache[key]
		return v, ok
	}
	constGlobalDone[key] = true
	if gl.Pkg == nil || gl.Object() == nil || gl.Object().Exported() {
		return nil, false
	}
	pt, ok := gl.Type().(*types.Pointer)
	if !ok {
		return nil, false
	}
	st, ok := pt.Elem().Underlying().(*types.Slice)
	if !ok {
		return nil, false
	}
	if b, ok := st.Elem().Underlying().(*types.Basic); !ok || b.Kind() != types.Uint8 {
		return nil, false
	}
	var vals []int64
	stores := 0
	for _, m := range gl.Pkg.Members {
		var fns []*ssa.Function
		switch x := m.(type) {
		case *ssa.Function:
			fns = append(fns, x)
			fns = append(fns, x.AnonFuncs...)
		case *ssa.Type:
			mset := gl.Pkg.Prog.MethodSets.MethodSet(x.Type())
			for i := 0; i < mset.Len(); i++ {
				if f := gl.Pkg.Prog.MethodValue(mset.At(i)); f != nil {
					fns = append(fns, f)
				}
			}
			mset = gl.Pkg.Prog.MethodSets.MethodSet(types.NewPointer(x.Type()))
			for i := 0; i < mset.Len(); i++ {
				if f := gl.Pkg.Prog.MethodValue(mset.At(i)); f != nil {
					fns = append(fns, f)
				}
			}
		}
		for _, fn := range fns {
			for _, b := range fn.Blocks {
				for _, in := range b.Instrs {
					s, ok := in.(*ssa.Store)
					if !ok || s.Addr != ssa.Value(gl) {
						continue
					}
					stores++
					val := s.Val
					if u, ok := val.(*ssa.UnOp); ok {
						// naive form: the composite literal goes through a temporary (*t = slice; v = *t; *pad = v)
						if tmp, ok := u.X.(*ssa.Alloc); ok {
							var only ssa.Value
							n := 0
							for _, ref := range *tmp.Referrers() {
								if ts, ok := ref.(*ssa.Store); ok && ts.Addr == ssa.Value(tmp) {
									only = ts.Val
									n++
								}
							}
							if n == 1 {
								val = only
							}
						}
					}
					sl, ok := val.(*ssa.Slice)
					if !ok || sl.Low != nil || sl.High != nil || sl.Max != nil || fn.Name() != "init" {
						return nil, false
					}
					al, ok := sl.X.(*ssa.Alloc)
					if !ok {
						return nil, false
					}
					at, ok := al.Type().(*types.Pointer).Elem().Underlying().(*types.Array)
					if !ok {
						return nil, false
					}
					vals = make([]int64, at.Len())
					for _, ref := range *al.Referrers() {
						switch r := ref.(type) {
						case *ssa.Slice:
							if r != sl {
								return nil, false
							}
						case *ssa.IndexAddr:
							ic, ok := r.Index.(*ssa.Const)
							if !ok || len(*r.Referrers()) != 1 {
								return nil, false
							}
							es, ok := (*r.Referrers())[0].(*ssa.Store)
							if !ok || es.Addr != ssa.Value(r) {
								return nil, false
							}
							vc, ok := es.Val.(*ssa.Const)
							if !ok || vc.Value == nil || vc.Value.Kind() != constant.Int {
								return nil, false
							}
							iv, _ := constant.Int64Val(ic.Value)
							vv, _ := constant.Int64Val(vc.Value)
							if iv < 0 || iv >= int64(len(vals)) {
								return nil, false
							}
							vals[iv] = vv
						default:
							return nil, false
						}
					}
				}
			}
		}
	}
	if os.Getenv("GOVC_DEBUG_GLOB") != "" {
		fmt.Fprintln(os.Stderr, "constGlobalBytes", key, "stores", stores, "vals", len(vals))
	}
	if stores != 1 {
		return nil, false
	}
	constGlobalCache[key] = vals
	return vals, true
}

// constGlobalFacts: facts about the value v just loaded from the package variable gl.
func (g *Gen) constGlobalFacts(st *State, gl *ssa.Global, v Val) {
	vals, ok := constGlobalBytes(gl)
	if !ok || v.Ref == "" {
		return
	}
	g.assume(st, fmt.Sprintf("(and (= %s %d) (not (= %s 0)))", v.Len, len(vals), v.Ref))
	arr := fmt.Sprintf("(select %s %s)", g.hsGet(st), v.Ref)
	for i, c := range vals {
		g.assume(st, fmt.Sprintf("(= (select %s (+ %s %d)) %d)", arr, v.Off, i, c))
	}
	g.trustedUsed[fmt.Sprintf("package variable %s.%s is a constant byte table: assigned once, in the package initialiser, from literal bytes (checked on the SSA of its package); ASSUMED: nothing writes its elements", gl.Pkg.Pkg.Name(), gl.Name())] = true
}
