package main

import (
	"fmt"
	"go/constant"
	"go/token"
	"go/types"
	"strings"

	"golang.org/x/tools/go/ssa"
)

// ---------------------------------------------------------------- instructions

func (g *Gen) safety(st *State, kind string, pos token.Pos, goal string) {
	if g.c != nil && g.c.Opt("safety") == "assumed" {
		// panic-freedom of this function is not claimed: its contract is about what happens on the runs
		// that do not panic (partial correctness); listed as an assumption in the evidence
		g.assume(st, goal)
		g.trustedUsed["run-time panic freedom of "+g.short+" is NOT claimed: its safety conditions (nil, bounds, ...) are assumed, the contract speaks about runs that do not panic"] = true
		return
	}
	g.oblige(st, "safety", fmt.Sprintf("%s#%d", kind, g.ord(kind)), g.line(pos), goal)
}

func (g *Gen) setHs(st *State, ref, arr string) {
	st.hs = g.def("Hs", "(Array Int (Array Int Int))", fmt.Sprintf("(store %s %s %s)", g.hsGet(st), ref, arr))
}

func (g *Gen) frameElemStore(st *State, ref string, pos token.Pos) {
	if g.c == nil || g.lemma != nil {
		return
	}
	if st.fresh[ref] {
		return
	}
	for _, m := range g.c.Modifies {
		if m == "mem" { // frame: any array may be written (arrays reached through interfaces or maps)
			return
		}
	}
	var alts []string
	for _, m := range g.memModRefs(st) {
		alts = append(alts, fmt.Sprintf("(= %s %s)", ref, m))
	}
	for _, r := range sortedKeysB(st.fresh) {
		alts = append(alts, fmt.Sprintf("(= %s %s)", ref, r))
	}
	goal := "false"
	if len(alts) > 0 {
		goal = "(or " + strings.Join(alts, " ") + " false)"
	}
	g.oblige(st, "frame", fmt.Sprintf("frame.mem#%d", g.ord("frame.mem")), g.line(pos), goal)
}

func (g *Gen) frameFieldStore(st *State, key string, base ssa.Value, pos token.Pos) {
	if g.c == nil || g.lemma != nil {
		return
	}
	for _, m := range g.c.Modifies {
		if m == key || m == "heap" {
			return
		}
	}
	g.oblige(st, "frame", fmt.Sprintf("frame.field[%s]#%d", key, g.ord("frame.field")), g.line(pos), "false")
}

func (g *Gen) step(fn *ssa.Function, st *State, in ssa.Instruction) {
	switch x := in.(type) {
	case *ssa.Alloc:
		el := x.Type().(*types.Pointer).Elem()
		if isBufType(el) {
			g.bufAlloc(st, x, true)
			break
		}
		if at, ok := el.Underlying().(*types.Array); ok {
			r := g.freshRef(st)
			g.setHs(st, r, emptyAr)
			st.cells[x] = Val{Ref: r, Len: fmt.Sprint(at.Len()), Off: "0", Kind: "slice", Ty: el}
			break
		}
		st.cells[x] = g.zeroFor(el)
	case *ssa.Store:
		v := g.val(st, x.Val)
		p := g.val(st, x.Addr)
		if p.Kind == "heapfield" || p.Kind == "globptr" || (p.Kind == "elemptr" && p.Elem.Ref != "") {
			g.markEscape(st, v)
		}
		if p.Kind == "heapfield" && v.Kind == "ptr" && v.Cell != nil {
			v = g.promote(st, v)
		}
		switch {
		case p.Kind == "elemfield":
			g.frameElemStore(st, p.Ref, x.Pos())
			g.elemFieldStore(st, p.Obj, p.Ref, p.Idx, p.Ty, v)
		case p.Kind == "elemptr" && p.Elem.Ref != "" && v.Kind == "struct":
			if stt, el, ok := structElem(p.Elem.Ty); ok {
				g.frameElemStore(st, p.Elem.Ref, x.Pos())
				g.elemFieldStore(st, typeName(el), p.Elem.Ref, p.Idx, stt, v)
			} else {
				panic(oos("store of a struct into an element of unknown element type"))
			}
		case p.Kind == "elemptr" && p.Elem.Ref != "":
			g.frameElemStore(st, p.Elem.Ref, x.Pos())
			if v.T == "" && st.fresh[p.Elem.Ref] {
				// a slice or struct stored into an element of an array this function allocated (variadic
				// arguments f(xs...) of slice type): elements of that shape are not modelled; the element
				// becomes an unconstrained value
				g.unmodelled["non-scalar value stored into an element of a local array (element unconstrained)"] = true
				g.setHs(st, p.Elem.Ref, fmt.Sprintf("(store %s %s %s)", g.arr(st, *p.Elem), p.Idx, g.newSym("elem", "Int")))
				break
			}
			if v.T == "" {
				panic(oos(fmt.Sprintf("store of a %s value without scalar form into an array element at line %d", v.Kind, g.line(x.Pos()))))
			}
			na := fmt.Sprintf("(store %s %s %s)", g.arr(st, *p.Elem), p.Idx, v.T)
			g.setHs(st, p.Elem.Ref, na)
		case p.Kind == "elemptr" && p.Elem.Cell != nil: // element of a value-form array held in a cell
			cv := st.cells[p.Elem.Cell]
			cv.T = g.def("arr", "(Array Int Int)", fmt.Sprintf("(store %s %s %s)", g.arr(st, cv), p.Idx, v.T))
			st.cells[p.Elem.Cell] = cv
		case p.Kind == "fieldcell":
			st.cells[p.Cell] = setPath(st.cells[p.Cell], strings.Split(p.Idx, "."), v)
		case p.Kind == "heapfield" && v.Kind == "slice" && v.Ref != "":
			g.frameFieldStore(st, p.Idx, nil, x.Pos())
			for _, part := range [][2]string{{"", v.Ref}, {"#off", v.Off}, {"#len", v.Len}} {
				k := p.Idx + part[0]
				if _, ok := g.heapSort[k]; !ok {
					g.heapSort[k] = "(Array Int Int)"
				}
				st.heap[k] = g.def("H", "(Array Int Int)", fmt.Sprintf("(store %s %s %s)", g.heapGet(st, k), p.T, part[1]))
			}
		case p.Kind == "heapfield" && v.Kind == "str":
			// a string stored into an object: a new immutable backing object holding its bytes
			g.frameFieldStore(st, p.Idx, nil, x.Pos())
			r := g.freshRef(st)
			g.setHs(st, r, v.T)
			for _, part := range [][2]string{{"", r}, {"#off", v.Off}, {"#len", v.Len}} {
				k := p.Idx + part[0]
				if _, ok := g.heapSort[k]; !ok {
					g.heapSort[k] = "(Array Int Int)"
				}
				st.heap[k] = g.def("H", "(Array Int Int)", fmt.Sprintf("(store %s %s %s)", g.heapGet(st, k), p.T, part[1]))
			}
		case p.Kind == "heapfield":
			if v.Kind != "int" && v.Kind != "bool" && v.Kind != "err" && v.Kind != "opaque" && v.Kind != "map" {
				panic(oos("store of " + v.Kind + " value into heap field " + p.Idx))
			}
			vt := v.T
			if v.Kind == "map" {
				vt = v.Ref
			}
			g.frameFieldStore(st, p.Idx, nil, x.Pos())
			st.heap[p.Idx] = g.def("H", g.heapSort[p.Idx], fmt.Sprintf("(store %s %s %s)", g.heapGet(st, p.Idx), p.T, vt))
		case p.Kind == "ptr" && p.Cell != nil:
			st.cells[p.Cell] = v
		case p.Kind == "opaque" && p.T != "" && (v.Kind == "int" || v.Kind == "bool") && isScalarCell(x.Val.Type()):
			key := derefKey(g, x.Val.Type())
			g.safety(st, "nil", x.Pos(), fmt.Sprintf("(not (= %s 0))", p.T))
			g.frameFieldStore(st, key, nil, x.Pos())
			st.heap[key] = g.def("H", g.heapSort[key], fmt.Sprintf("(store %s %s %s)", g.heapGet(st, key), p.T, v.T))
		case p.Kind == "opaque" && p.T != "" && v.Kind == "opaque" && v.T != "" && isStructType(x.Val.Type()):
			// *dst = *src for heap structs (the loaded struct value carries the identity of src): every
			// field array gets dst's entry from src's
			stt := x.Val.Type().Underlying().(*types.Struct)
			g.safety(st, "nil", x.Pos(), fmt.Sprintf("(not (= %s 0))", p.T))
			pt := types.NewPointer(x.Val.Type())
			for i := 0; i < stt.NumFields(); i++ {
				key, ft := g.heapKey(pt, i)
				keys := []string{key}
				if _, isSl := ft.Underlying().(*types.Slice); isSl {
					for _, sfx := range []string{"#off", "#len"} {
						if _, ok := g.heapSort[key+sfx]; !ok {
							g.heapSort[key+sfx] = "(Array Int Int)"
						}
						keys = append(keys, key+sfx)
					}
				}
				for _, k := range keys {
					g.frameFieldStore(st, k, nil, x.Pos())
					cur := g.heapGet(st, k)
					st.heap[k] = g.def("H", g.heapSort[k], fmt.Sprintf("(store %s %s (select %s %s))", cur, p.T, cur, v.T))
				}
			}
		case p.Kind == "globptr":
			st.globs[p.T] = v
		case p.Kind == "unmodelledptr":
			// dropped (see FieldAddr)
		default:
			panic(oos("store through unsupported pointer kind " + p.Kind))
		}
	case *ssa.UnOp:
		a := g.val(st, x.X)
		switch x.Op {
		case token.MUL:
			g.regs[x] = g.load(st, x, a)
		case token.NOT:
			g.regs[x] = Val{T: not(a.T), Kind: "bool"}
		case token.SUB:
			g.regs[x] = Val{T: g.arith(st, x.Type(), "(- "+a.T+")", x.Pos()), Kind: "int"}
		case token.XOR:
			// ^x == -x-1 for signed, max-x for unsigned
			lo, hi, ok := rangeOf(x.Type())
			if !ok {
				panic(oos("unop ^ on non-integer"))
			}
			if lo == "0" {
				g.regs[x] = Val{T: fmt.Sprintf("(- %s %s)", hi, a.T), Kind: "int"}
			} else {
				g.regs[x] = Val{T: fmt.Sprintf("(- (- %s) 1)", a.T), Kind: "int"}
			}
		default:
			panic(oos("unop " + x.String()))
		}
	case *ssa.BinOp:
		g.regs[x] = g.binop(st, x)
	case *ssa.Convert:
		g.regs[x] = g.convert(st, x)
	case *ssa.ChangeType:
		g.regs[x] = g.val(st, x.X)
	case *ssa.ChangeInterface:
		g.regs[x] = g.val(st, x.X)
	case *ssa.MakeInterface:
		inner := g.tryPromote(st, g.val(st, x.X)) // a boxed pointer to a local escapes
		// interface values are abstract identities; a non-nil concrete value makes a non-nil interface
		// (an interface made from any typed value, even a nil pointer, is itself non-nil)
		s := g.newSym("iface", "Int")
		g.assume(st, fmt.Sprintf("(not (= %s 0))", s))
		r := Val{T: s, Kind: "err", Ty: x.Type()}
		iv := inner
		r.Elem = &iv
		// the boxed value stays reachable through the interface identity: dyntype(s) and payload.T(s)
		g.assume(st, fmt.Sprintf("(= (%s %s) %s)", g.uf("dyntype", 1, "Int"), s, g.typeID(x.X.Type())))
		switch {
		case inner.Kind == "int":
			g.assume(st, fmt.Sprintf("(= (%s %s) %s)", g.uf("payload."+typeName(x.X.Type()), 1, "Int"), s, inner.T))
		case inner.Kind == "bool":
			g.assume(st, fmt.Sprintf("(= (%s %s) %s)", g.uf("ispayload."+typeName(x.X.Type()), 1, "Bool"), s, inner.T))
		case inner.Kind == "opaque" && inner.T != "":
			// an interface holding a non-nil pointer has the pointer's identity (payloadOf, cast())
			if _, isPtr := x.X.Type().Underlying().(*types.Pointer); isPtr {
				g.assume(st, fmt.Sprintf("(=> (not (= %s 0)) (= %s %s))", inner.T, s, inner.T))
			}
		}
		g.regs[x] = r
	case *ssa.IndexAddr:
		a := g.val(st, x.X)
		var cell *ssa.Alloc
		if a.Kind == "ptr" && a.Cell != nil {
			cell = a.Cell
			a = st.cells[a.Cell]
		}
		if a.Kind == "heapfield" {
			// an array held inside a heap object (fd.UnicodeRange[i]): its elements live in the element heap
			// under an identity that is a function of the object and the field; writes to it need
			// `modifies mem` (the identity is neither fresh nor a parameter's)
			if pt, ok := x.X.Type().Underlying().(*types.Pointer); ok {
				if at, ok := pt.Elem().Underlying().(*types.Array); ok {
					ref := fmt.Sprintf("(%s %s)", g.uf("inarr."+a.Idx, 1, "Int"), a.T)
					g.assume(st, fmt.Sprintf("(> %s 0)", ref))
					a = Val{Ref: ref, Off: "0", Len: fmt.Sprint(at.Len()), Kind: "slice", Ty: x.X.Type()}
				}
			}
		}
		if a.Len == "" {
			panic(oos("IndexAddr on a value without length"))
		}
		i := g.val(st, x.Index)
		g.safety(st, "index", x.Pos(), fmt.Sprintf("(and (<= 0 %s) (< %s %s))", i.T, i.T, a.Len))
		aa := a
		if aa.Ref == "" {
			aa.Cell = cell
		}
		g.regs[x] = Val{Kind: "elemptr", Elem: &aa, Idx: g.def("ix", "Int", fmt.Sprintf("(+ %s %s)", a.Off, i.T)), Ty: x.Type()}
	case *ssa.Lookup:
		g.lookup(fn, st, x)
	case *ssa.Index:
		g.indexLike(st, x, x.X, x.Index)
	case *ssa.Range:
		g.regs[x] = Val{Kind: "rangeiter", T: g.newSym("iter", "Int"), Elem: func() *Val { v := g.val(st, x.X); return &v }()}
	case *ssa.Next:
		g.next(st, x)
	case *ssa.TypeAssert:
		g.typeAssert(st, x)
	case *ssa.MapUpdate:
		m := g.val(st, x.Map)
		k := g.val(st, x.Key)
		v := g.val(st, x.Value)
		if m.Kind != "map" || st.mdom[m.Ref] == "" {
			panic(oos("map update on a map that is not modelled"))
		}
		g.safety(st, "nilmap", x.Pos(), fmt.Sprintf("(not (= %s 0))", m.Ref))
		st.mdom[m.Ref] = g.def("md", "(Array Int Bool)", fmt.Sprintf("(store %s %s true)", st.mdom[m.Ref], k.T))
		srt := "(Array Int Int)"
		if g.mapValKind[m.Ref] == "garrbool" {
			srt = "(Array Int Bool)"
		}
		st.mval[m.Ref] = g.def("mv", srt, fmt.Sprintf("(store %s %s %s)", st.mval[m.Ref], k.T, v.T))
	case *ssa.MakeSlice:
		l := g.val(st, x.Len)
		g.safety(st, "makeslice", x.Pos(), fmt.Sprintf("(and (<= 0 %s) (<= %s %s))", l.T, l.T, maxLen))
		if x.Cap != nil && x.Cap != x.Len {
			c := g.val(st, x.Cap)
			g.safety(st, "makeslice.cap", x.Pos(), fmt.Sprintf("(and (<= %s %s) (<= %s %s))", l.T, c.T, c.T, maxLen))
		}
		r := g.freshRef(st)
		g.setHs(st, r, emptyAr)
		g.regs[x] = Val{Ref: r, Len: l.T, Off: "0", Kind: "slice", Ty: x.Type()}
	case *ssa.MakeMap:
		mt := x.Type().Underlying().(*types.Map)
		r := g.freshRef(st)
		vk, zero := "garrint", emptyAr
		if isBoolType(mt.Elem()) {
			vk, zero = "garrbool", "((as const (Array Int Bool)) false)"
		}
		g.mapValKind[r] = vk
		st.mdom[r] = "((as const (Array Int Bool)) false)"
		st.mval[r] = zero
		g.regs[x] = Val{Kind: "map", Ref: r, T: r, Ty: x.Type()}
	case *ssa.Go, *ssa.Send, *ssa.Select:
		panic(oos("concurrency"))
	case *ssa.Slice:
		g.sliceOp(st, x)
	case *ssa.Extract:
		g.regs[x] = g.val(st, x.Tuple).Tup[x.Index]
	case *ssa.Phi:
		// handled at block entry
	case *ssa.Call:
		g.callCommon(fn, st, &x.Call, x, x.Pos())
	case *ssa.MakeClosure:
		var bind []Val
		for _, b := range x.Bindings {
			bind = append(bind, g.val(st, b))
		}
		g.regs[x] = Val{Kind: "closure", T: strID(x.Fn.String()), Fn: x.Fn.(*ssa.Function), Bind: bind}
	case *ssa.Defer:
		st.defers[x] = "true"
	case *ssa.FieldAddr:
		base := g.val(st, x.X)
		if base.Cell != nil && base.Kind == "ptr" {
			if cv, ok := st.cells[base.Cell]; ok && cv.Kind == "struct" {
				g.regs[x] = Val{Kind: "fieldcell", Cell: base.Cell, Idx: fmt.Sprint(x.Field), Ty: x.Type(), Obj: fieldSpecName(x.X.Type(), x.Field)}
				break
			}
		}
		if base.Kind == "fieldcell" {
			// (a function-typed field of a nested struct - ops.files.createTempFn - is governed by the
			// behaviour spec of the struct that declares it)
			g.regs[x] = Val{Kind: "fieldcell", Cell: base.Cell, Idx: base.Idx + "." + fmt.Sprint(x.Field), Ty: x.Type(), Obj: fieldSpecName(x.X.Type(), x.Field)}
			break
		}
		if base.T != "" && (base.Kind == "opaque" || base.Kind == "err" || base.Kind == "int") {
			key, _ := g.heapKey(x.X.Type(), x.Field)
			g.safety(st, "nil", x.Pos(), fmt.Sprintf("(not (= %s 0))", base.T))
			g.regs[x] = Val{Kind: "heapfield", T: base.T, Idx: key, Ty: x.Type()}
			break
		}
		if base.Kind == "elemptr" && base.Elem != nil && base.Elem.Ref != "" {
			// field of a struct element of a slice/array: per-field array heap (structslice.go)
			if pt, ok := x.X.Type().Underlying().(*types.Pointer); ok {
				if stt, ok := pt.Elem().Underlying().(*types.Struct); ok {
					g.regs[x] = Val{Kind: "elemfield", Ref: base.Elem.Ref, Idx: base.Idx, Obj: typeName(pt.Elem()) + "." + stt.Field(x.Field).Name(), Ty: stt.Field(x.Field).Type()}
					break
				}
			}
		}
		if base.Kind == "elemfield" {
			if stt, ok := base.Ty.Underlying().(*types.Struct); ok {
				g.regs[x] = Val{Kind: "elemfield", Ref: base.Ref, Idx: base.Idx, Obj: base.Obj + "." + stt.Field(x.Field).Name(), Ty: stt.Field(x.Field).Type()}
				break
			}
		}
		if base.Kind == "elemptr" || base.Kind == "unmodelledptr" {
			// field of a struct stored inside a slice/array: such elements are not modelled; writes are
			// dropped and reads yield an unconstrained value (sound: nothing else can observe them)
			g.unmodelled["field of a struct element inside a slice (writes dropped, reads unconstrained)"] = true
			g.regs[x] = Val{Kind: "unmodelledptr", Ty: x.Type()}
			break
		}
		if base.Kind == "heapfield" {
			// field of a struct that is embedded by value in a heap object (x.Details.SubFilter): its own
			// per-field array, keyed by the path, indexed by the enclosing object
			if pt, ok := x.X.Type().Underlying().(*types.Pointer); ok {
				if stt, ok := pt.Elem().Underlying().(*types.Struct); ok {
					f := stt.Field(x.Field)
					key := base.Idx + "." + f.Name()
					if _, ok := g.heapSort[key]; !ok {
						srt := "(Array Int Int)"
						if isBoolType(f.Type()) {
							srt = "(Array Int Bool)"
						}
						g.heapSort[key] = srt
					}
					g.regs[x] = Val{Kind: "heapfield", T: base.T, Idx: key, Ty: x.Type()}
					break
				}
			}
		}
		panic(oos("FieldAddr on " + base.Kind))
	case *ssa.Field:
		sv := g.val(st, x.X)
		if (sv.Kind == "struct" || sv.Kind == "tuple") && x.Field < len(sv.Tup) {
			fv := sv.Tup[x.Field]
			if _, isFn := x.Type().Underlying().(*types.Signature); isFn && fv.FnSpec == "" {
				fv.FnSpec = fieldSpecName(x.X.Type(), x.Field) // a function-typed field: governed by its `field` behaviour spec
			}
			g.regs[x] = fv
		} else {
			g.regs[x] = g.symFor(x.Type(), "field", st)
		}
	case *ssa.DebugRef:
	default:
		panic(oos(fmt.Sprintf("unsupported instr %T: %s", in, in)))
	}
}

// load evaluates *a.
func (g *Gen) load(st *State, x *ssa.UnOp, a Val) Val {
	switch {
	case a.Kind == "fieldcell":
		fv := getPath(st.cells[a.Cell], strings.Split(a.Idx, "."))
		if _, isFn := x.Type().Underlying().(*types.Signature); isFn && fv.FnSpec == "" && a.Obj != "" {
			fv.FnSpec = a.Obj
		}
		return fv
	case a.Kind == "heapfield":
		return g.heapRead(st, a.Idx, a.T, x.Type())
	case a.Kind == "globptr" && isMap(x.Type()):
		return Val{Kind: "globmap", T: a.T[strings.LastIndex(a.T, ".")+1:], Ty: x.Type()}
	case a.Kind == "ptr" && a.Cell != nil:
		v, ok := st.cells[a.Cell]
		if !ok {
			panic(oos("load of unknown cell " + a.Cell.Comment))
		}
		return v
	case a.Kind == "elemfield":
		return g.elemFieldLoad(st, a.Obj, a.Ref, a.Idx, a.Ty, func(k string, b bool) string { return g.hsfGet(st, k, b) })
	case a.Kind == "elemptr" && a.Elem != nil && a.Elem.Ref != "" && isStructType(x.Type()):
		return g.elemFieldLoad(st, typeName(x.Type()), a.Elem.Ref, a.Idx, x.Type(), func(k string, b bool) string { return g.hsfGet(st, k, b) })
	case a.Kind == "elemptr":
		e := fmt.Sprintf("(select %s %s)", g.arr(st, *a.Elem), a.Idx)
		return g.elemVal(st, e, x.Type())
	case a.Kind == "globptr":
		v := g.globalVal(st, a.T, x.Type())
		if gl, ok := x.X.(*ssa.Global); ok {
			g.constGlobalFacts(st, gl, v)
		}
		return v
	case a.Kind == "unmodelledptr":
		return g.symFor(x.Type(), "unmodelled", st)
	case a.Kind == "opaque" && a.T != "" && isScalarCell(x.Type()):
		// *p for a pointer to an integer or bool: one heap array per pointee type, indexed by the pointer
		key := derefKey(g, x.Type())
		g.safety(st, "nil", x.Pos(), fmt.Sprintf("(not (= %s 0))", a.T))
		return g.heapRead(st, key, a.T, x.Type())
	case a.Kind == "opaque" || a.Kind == "err":
		if _, isStruct := x.Type().Underlying().(*types.Struct); isStruct && a.T != "" {
			return Val{Kind: "opaque", T: a.T, Ty: x.Type()} // struct loaded through a pointer keeps the pointer's identity
		}
		return g.symFor(x.Type(), "load", st)
	}
	panic(oos("load through " + a.Kind))
}

func isErrorType(t types.Type) bool {
	return t.String() == "error"
}

func (g *Gen) elemVal(st *State, e string, t types.Type) Val {
	if lo, hi, ok := rangeOf(t); ok {
		g.assume(st, fmt.Sprintf("(and (<= %s %s) (<= %s %s))", lo, e, e, hi))
		return Val{T: e, Kind: "int"}
	}
	if b, ok := t.Underlying().(*types.Basic); ok && b.Info()&types.IsString != 0 {
		if g.opaqueStr {
			return Val{T: e, Kind: "int"}
		}
		panic(oos("slice of strings needs opaque_strings"))
	}
	switch t.Underlying().(type) {
	case *types.Pointer:
		g.assume(st, fmt.Sprintf("(>= %s 0)", e))
		return Val{T: e, Kind: "opaque", Ty: t}
	case *types.Interface:
		return Val{T: e, Kind: "err", Ty: t}
	}
	panic(oos("element type " + t.String()))
}

func (g *Gen) heapRead(st *State, key, obj string, t types.Type) Val {
	e := fmt.Sprintf("(select %s %s)", g.heapGet(st, key), obj)
	if g.heapSort[key] == "(Array Int Bool)" {
		return Val{T: e, Kind: "bool"}
	}
	if lo, hi, ok := rangeOf(t); ok {
		g.assume(st, fmt.Sprintf("(and (<= %s %s) (<= %s %s))", lo, e, e, hi))
		return Val{T: e, Kind: "int"}
	}
	isStr := false
	switch u := t.Underlying().(type) {
	case *types.Basic:
		if u.Info()&types.IsString != 0 && g.opaqueStr {
			return Val{T: e, Kind: "int"}
		}
		isStr = u.Info()&types.IsString != 0 // a string field is held like a byte slice (reference, offset, length)
	}
	switch u := t.Underlying().(type) {
	case *types.Pointer:
		g.assume(st, fmt.Sprintf("(>= %s 0)", e))
		return Val{T: e, Kind: "opaque", Ty: t}
	case *types.Interface:
		return Val{T: e, Kind: "err", Ty: t}
	case *types.Map:
		return g.mapFromRef(st, e, u, t)
	case *types.Signature:
		return Val{T: e, Kind: "opaque", Ty: t}
	case *types.Slice, *types.Basic:
		if _, isBasic := u.(*types.Basic); isBasic && !isStr {
			break
		}
		for _, sfx := range []string{"#off", "#len"} {
			if _, ok := g.heapSort[key+sfx]; !ok {
				g.heapSort[key+sfx] = "(Array Int Int)"
			}
		}
		off := fmt.Sprintf("(select %s %s)", g.heapGet(st, key+"#off"), obj)
		ln := fmt.Sprintf("(select %s %s)", g.heapGet(st, key+"#len"), obj)
		g.assume(st, fmt.Sprintf("(and (>= %s 0) (<= 0 %s) (<= %s %s) (<= 0 %s) (<= %s %s) (=> (= %s 0) (= %s 0)))", e, off, off, maxLen, ln, ln, maxLen, e, ln))
		if strings.HasPrefix(g.heapGet(st, key), "|H0.") { // read from the untouched entry heap: an object that existed at entry
			g.assume(st, fmt.Sprintf("(<= %s %s)", e, g.allocMark()))
		}
		known := false
		for _, r := range st.refs {
			if r == e {
				known = true
			}
		}
		if !known {
			st.refs = append(st.refs, e)
		}
		if isStr {
			// strings are value-form byte arrays (Kind "str"): the bytes of the backing object, which nothing
			// can write (strings are immutable), read at this point
			g.noteElemRange(st, e, types.Typ[types.Byte])
			return Val{T: fmt.Sprintf("(select %s %s)", g.hsGet(st), e), Off: off, Len: ln, Kind: "str", Ty: t}
		}
		return Val{Ref: e, Off: off, Len: ln, Kind: "slice", Ty: t}
	}
	return g.symFor(t, "hload", st)
}

// mapFromRef gives a map value whose identity is the term ref; its contents are tracked per ref term.
func (g *Gen) mapFromRef(st *State, ref string, u *types.Map, t types.Type) Val {
	if _, ok := st.mdom[ref]; !ok {
		vk, vs := "garrint", "(Array Int Int)"
		if isBoolType(u.Elem()) {
			vk, vs = "garrbool", "(Array Int Bool)"
		}
		g.mapValKind[ref] = vk
		st.mdom[ref] = g.newSym("hm_dom", "(Array Int Bool)")
		st.mval[ref] = g.newSym("hm_val", vs)
		if _, ok := g.entryMdom[ref]; !ok {
			g.entryMdom[ref], g.entryMval[ref] = st.mdom[ref], st.mval[ref]
		}
	}
	return Val{Kind: "map", Ref: ref, T: ref, Ty: t}
}

func (g *Gen) convert(st *State, x *ssa.Convert) Val {
	a := g.val(st, x.X)
	bt, isBasic := x.Type().Underlying().(*types.Basic)
	_, toSlice := x.Type().Underlying().(*types.Slice)
	switch {
	case isBasic && bt.Info()&types.IsString != 0 && a.Kind == "slice":
		if g.opaqueStr {
			return Val{T: g.newSym("str", "Int"), Kind: "int"}
		}
		return Val{T: g.arr(st, a), Len: a.Len, Off: a.Off, Kind: "str"}
	case toSlice && a.Kind == "str" && !isByteSlice(x.Type()):
		// []rune(s): a fresh slice of at most len(s) runes whose values are not modelled
		r := g.freshRef(st)
		l := g.newSym("runes_len", "Int")
		g.assume(st, fmt.Sprintf("(and (<= 0 %s) (<= %s %s))", l, l, a.Len))
		g.noteElemRange(st, r, x.Type().Underlying().(*types.Slice).Elem())
		return Val{Ref: r, Len: l, Off: "0", Kind: "slice", Ty: x.Type()}
	case toSlice && a.Kind == "str":
		r := g.freshRef(st)
		g.setHs(st, r, a.T)
		return Val{Ref: r, Len: a.Len, Off: a.Off, Kind: "slice", Ty: x.Type()}
	case toSlice && a.Kind == "int" && g.opaqueStr:
		r := g.freshRef(st)
		l := g.newSym("len", "Int")
		g.assume(st, fmt.Sprintf("(and (<= 0 %s) (<= %s %s))", l, l, maxLen))
		return Val{Ref: r, Len: l, Off: "0", Kind: "slice", Ty: x.Type()}
	case isBasic && bt.Info()&types.IsString != 0:
		// string(rune): one byte for ASCII, otherwise an unconstrained 1..4 byte encoding
		if g.opaqueStr {
			return Val{T: g.newSym("str", "Int"), Kind: "int"}
		}
		arr := g.newSym("runestr", "(Array Int Int)")
		l := g.newSym("runestr_len", "Int")
		g.assume(st, fmt.Sprintf("(and (<= 1 %s) (<= %s 4) (=> (and (<= 0 %s) (< %s 128)) (and (= %s 1) (= (select %s 0) %s))))", l, l, a.T, a.T, l, arr, a.T))
		return Val{T: arr, Len: l, Off: "0", Kind: "str"}
	case isBasic && bt.Info()&types.IsInteger != 0 && a.Kind == "int":
		slo, shi, sok := rangeOf(x.X.Type())
		tlo, thi, _ := rangeOf(x.Type())
		if sok && contains(tlo, thi, slo, shi) {
			return Val{T: a.T, Kind: "int"}
		}
		return Val{T: g.def("cv", "Int", wrapT(x.Type(), a.T)), Kind: "int"}
	case isBasic && bt.Info()&types.IsFloat != 0:
		return Val{T: g.newSym("float", "Int"), Kind: "opaque"}
	case isBasic && bt.Info()&types.IsInteger != 0:
		return g.symFor(x.Type(), "conv", st)
	}
	panic(oos("conversion " + x.String()))
}

var rangeNum = map[string][2]string{}

// contains reports whether [slo,shi] is inside [tlo,thi] for the literal range strings of rangeOf.
func contains(tlo, thi, slo, shi string) bool {
	w := func(s string) (neg bool, digits string) {
		if strings.HasPrefix(s, "(- ") {
			return true, strings.TrimSuffix(s[3:], ")")
		}
		return false, s
	}
	less := func(a, b string) bool { // a <= b for non-negative decimal strings
		if len(a) != len(b) {
			return len(a) < len(b)
		}
		return a <= b
	}
	le := func(a, b string) bool { // a <= b
		an, ad := w(a)
		bn, bd := w(b)
		switch {
		case an && !bn:
			return true
		case !an && bn:
			return false
		case an && bn:
			return less(bd, ad)
		}
		return less(ad, bd)
	}
	return le(tlo, slo) && le(shi, thi)
}

func (g *Gen) sliceOp(st *State, x *ssa.Slice) {
	a := g.val(st, x.X)
	if a.Kind == "ptr" && a.Cell != nil { // pointer to array
		a = st.cells[a.Cell]
	}
	if a.Kind == "int" && g.opaqueStr && isStringType(x.X.Type()) {
		// substring of an opaque string: a new opaque identity substr(s, lo, hi)
		sl := fmt.Sprintf("(%s %s)", g.uf("strlen", 1, "Int"), a.T)
		g.assume(st, fmt.Sprintf("(and (<= 0 %s) (<= %s %s))", sl, sl, maxLen))
		lo, hi := "0", sl
		if x.Low != nil {
			lo = g.val(st, x.Low).T
		}
		if x.High != nil {
			hi = g.val(st, x.High).T
		}
		g.safety(st, "slice", x.Pos(), fmt.Sprintf("(and (<= 0 %s) (<= %s %s) (<= %s %s))", lo, lo, hi, hi, sl))
		r := fmt.Sprintf("(%s %s %s %s)", g.uf("substr", 3, "Int"), a.T, lo, hi)
		g.assume(st, fmt.Sprintf("(and (= (%s %s) (- %s %s)) (= (= %s 0) (= %s %s)))", g.uf("strlen", 1, "Int"), r, hi, lo, r, hi, lo))
		sb := g.uf("strbyte", 2, "Int")
		g.assume(st, fmt.Sprintf("(forall ((k!ss Int)) (! (=> (and (<= 0 k!ss) (< k!ss (- %s %s))) (= (%s %s k!ss) (%s %s (+ %s k!ss)))) :pattern ((%s %s k!ss))))", hi, lo, sb, r, sb, a.T, lo, sb, r))
		g.regs[x] = Val{T: r, Kind: "int"}
		return
	}
	if a.Len == "" {
		panic(oos("slice of a value without length"))
	}
	lo, hi := "0", a.Len
	if x.Low != nil {
		lo = g.val(st, x.Low).T
	}
	if x.High != nil {
		hi = g.val(st, x.High).T
	}
	// NOTE: the capacity is not modelled; slicing beyond len (up to cap) is reported as unsafe.
	g.safety(st, "slice", x.Pos(), fmt.Sprintf("(and (<= 0 %s) (<= %s %s) (<= %s %s))", lo, lo, hi, hi, a.Len))
	offT, lenT := g.def("off", "Int", fmt.Sprintf("(+ %s %s)", a.Off, lo)), g.def("len", "Int", fmt.Sprintf("(- %s %s)", hi, lo))
	if lo == "0" {
		offT, lenT = a.Off, hi
	}
	g.regs[x] = Val{T: a.T, Ref: a.Ref, Off: offT, Len: lenT, Kind: a.Kind, Ty: x.Type()}
}

func (g *Gen) indexLike(st *State, in ssa.Value, xa, xi ssa.Value) {
	a := g.val(st, xa)
	i := g.val(st, xi)
	if a.Kind == "int" && g.opaqueStr && isStringType(xa.Type()) {
		sl := fmt.Sprintf("(%s %s)", g.uf("strlen", 1, "Int"), a.T)
		// opaque strings are value identities: the empty string is 0 and nothing else has length 0
		g.assume(st, fmt.Sprintf("(and (>= %s 0) (= (= %s 0) (= %s 0)))", sl, sl, a.T))
		g.safety(st, "index", in.Pos(), fmt.Sprintf("(and (<= 0 %s) (< %s %s))", i.T, i.T, sl))
		e := fmt.Sprintf("(%s %s %s)", g.uf("strbyte", 2, "Int"), a.T, i.T)
		g.assume(st, fmt.Sprintf("(and (<= 0 %s) (<= %s 255))", e, e))
		g.regs[in] = Val{T: e, Kind: "int"}
		return
	}
	if a.Len == "" {
		panic(oos("index of a value without length"))
	}
	g.safety(st, "index", in.Pos(), fmt.Sprintf("(and (<= 0 %s) (< %s %s))", i.T, i.T, a.Len))
	e := fmt.Sprintf("(select %s (+ %s %s))", g.arr(st, a), a.Off, i.T)
	g.regs[in] = g.elemVal(st, e, in.Type())
}

func (g *Gen) lookup(fn *ssa.Function, st *State, x *ssa.Lookup) {
	mv := g.val(st, x.X)
	switch mv.Kind {
	case "map":
		if st.mdom[mv.Ref] == "" {
			if mv.Ref == "0" { // nil map: reads give zero
				st.mdom[mv.Ref] = "((as const (Array Int Bool)) false)"
				st.mval[mv.Ref] = emptyAr
				g.mapValKind[mv.Ref] = "garrint"
			} else {
				panic(oos("lookup in a map that is not modelled"))
			}
		}
		key := g.val(st, x.Index)
		has := fmt.Sprintf("(select %s %s)", st.mdom[mv.Ref], key.T)
		kind, zero := "int", "0"
		if g.mapValKind[mv.Ref] == "garrbool" {
			kind, zero = "bool", "false"
		}
		ev := Val{Kind: kind, T: g.def("mlk", sortOf(Val{Kind: kind}), fmt.Sprintf("(ite %s (select %s %s) %s)", has, st.mval[mv.Ref], key.T, zero))}
		if mt, ok := x.X.Type().Underlying().(*types.Map); ok && kind == "int" {
			if _, isPtr := mt.Elem().Underlying().(*types.Pointer); isPtr {
				// a map of pointers: the value is an object identity (nil when the key is missing)
				ev.Kind, ev.Ty = "opaque", mt.Elem()
				g.assume(st, fmt.Sprintf("(>= %s 0)", ev.T))
			}
		}
		if x.CommaOk {
			g.regs[x] = Val{Kind: "tuple", Tup: []Val{ev, {Kind: "bool", T: has}}}
		} else {
			g.regs[x] = ev
		}
	case "globmap":
		key := g.val(st, x.Index)
		mt := x.X.Type().Underlying().(*types.Map)
		var ev Val
		has := Val{Kind: "bool", T: fmt.Sprintf("(%s %s)", g.uf(mv.T+".has", 1, "Bool"), key.T)}
		if stt, ok := mt.Elem().Underlying().(*types.Struct); ok {
			ev = Val{Kind: "struct", Ty: mt.Elem()}
			for i := 0; i < stt.NumFields(); i++ {
				// a missing key reads as the zero value
				ev.Tup = append(ev.Tup, Val{Kind: "int", T: fmt.Sprintf("(ite %s (%s %s) 0)", has.T, g.uf(mv.T+"."+stt.Field(i).Name(), 1, "Int"), key.T)})
			}
		} else if isBoolType(mt.Elem()) {
			ev = Val{Kind: "bool", T: fmt.Sprintf("(and %s (%s %s))", has.T, g.uf(mv.T+".isval", 1, "Bool"), key.T)}
		} else {
			ev = Val{Kind: "int", T: fmt.Sprintf("(ite %s (%s %s) 0)", has.T, g.uf(mv.T+".val", 1, "Int"), key.T)}
		}
		if x.CommaOk {
			g.regs[x] = Val{Kind: "tuple", Tup: []Val{ev, has}}
		} else {
			g.regs[x] = ev
		}
	default:
		g.indexLike(st, x, x.X, x.Index)
	}
}

// next models one step of a `range` over a string: (ok, index, rune).
func (g *Gen) next(st *State, x *ssa.Next) {
	it := g.val(st, x.Iter)
	if it.Elem == nil {
		panic(oos("range iterator"))
	}
	if !x.IsString && it.Elem.Kind == "map" {
		// One step of a map iteration, over-approximated: it may stop at any time and otherwise yields
		// SOME key of the map with its value (no order, distinctness or coverage is promised; loop
		// invariants must therefore be order-independent).
		m := *it.Elem
		if st.mdom[m.Ref] == "" {
			panic(oos("range over a map that is not modelled"))
		}
		ok := g.newSym("next_ok", "Bool")
		mt := m.Ty.Underlying().(*types.Map)
		k := g.symFor(mt.Key(), "next_key", st)
		if k.Kind != "int" {
			panic(oos("range over a map with non-integer keys"))
		}
		g.assume(st, fmt.Sprintf("(=> %s (select %s %s))", ok, st.mdom[m.Ref], k.T))
		kind := "int"
		if g.mapValKind[m.Ref] == "garrbool" {
			kind = "bool"
		}
		v := Val{Kind: kind, T: fmt.Sprintf("(select %s %s)", st.mval[m.Ref], k.T)}
		g.regs[x] = Val{Kind: "tuple", Tup: []Val{{Kind: "bool", T: ok}, k, v}}
		return
	}
	if x.IsString && it.Elem.Kind == "str" {
		// One step of a string iteration at byte index i (hidden iterator state): yields (ok, i, r)
		// with r = the byte itself for ASCII and some rune >= 0x80 otherwise; advances by 1..4 bytes.
		sv := *it.Elem
		key := "$it:" + x.Iter.Name()
		pos, has := st.ghost[key]
		if !has {
			pos = intV("0")
		}
		ln := sv.Len
		g.assume(st, fmt.Sprintf("(and (<= 0 %s) (<= %s %s))", pos.T, pos.T, ln)) // iterator invariant
		ok := g.def("next_ok", "Bool", fmt.Sprintf("(< %s %s)", pos.T, ln))
		b := fmt.Sprintf("(select %s (+ %s %s))", sv.T, sv.Off, pos.T)
		r := g.newSym("next_rune", "Int")
		np := g.newSym("next_pos", "Int")
		g.assume(st, fmt.Sprintf("(=> %s (and (<= 0 %s) (<= %s 255) (ite (< %s 128) (and (= %s %s) (= %s (+ %s 1))) (and (<= 128 %s) (<= %s 1114111) (< %s %s) (<= %s (+ %s 4)) (<= %s %s)))))", ok, b, b, b, r, b, np, pos.T, r, r, pos.T, np, np, pos.T, np, ln))
		g.assume(st, fmt.Sprintf("(=> (not %s) (= %s %s))", ok, np, pos.T))
		st.ghost[key] = intV(np)
		g.trustedUsed["range over a string: yields byte index and rune; an ASCII byte is its own rune and advances by one, any other position yields a rune >= 0x80 and advances by 1..4 bytes (UTF-8 decoding, invalid bytes give U+FFFD)"] = true
		g.regs[x] = Val{Kind: "tuple", Tup: []Val{{Kind: "bool", T: ok}, pos, intV(r)}}
		return
	}
	panic(oos("range over " + it.Elem.Kind))
}

func (g *Gen) typeAssert(st *State, x *ssa.TypeAssert) {
	a := g.val(st, x.X)
	tag := fmt.Sprintf("(%s %s)", g.uf("dyntype", 1, "Int"), a.T)
	tid := g.typeID(x.AssertedType)
	ok := fmt.Sprintf("(and (not (= %s 0)) (= %s %s))", a.T, tag, tid)
	if _, isIface := x.AssertedType.Underlying().(*types.Interface); isIface {
		okb := g.newSym("implements", "Bool")
		ok = fmt.Sprintf("(and (not (= %s 0)) %s)", a.T, okb)
	}
	var payload Val
	if a.Elem != nil && types.Identical(x.X.Type(), x.X.Type()) && a.Elem.Ty != nil && types.Identical(a.Elem.Ty, x.AssertedType) {
		payload = *a.Elem
	} else {
		payload = g.payloadOf(st, a, x.AssertedType)
	}
	if x.CommaOk {
		g.regs[x] = Val{Kind: "tuple", Tup: []Val{payload, {Kind: "bool", T: ok}}}
		return
	}
	g.safety(st, "typeassert", x.Pos(), ok)
	g.regs[x] = payload
}

var typeIDs = map[string]int{}

func (g *Gen) typeID(t types.Type) string {
	return strID(t.String()) // deterministic, so that specs can name a dynamic type: isdyn(x, "pkgpath.Type")
}

// payloadOf: the concrete value inside interface value a when its dynamic type is t.
func (g *Gen) payloadOf(st *State, a Val, t types.Type) Val {
	name := "payload." + typeName(t)
	switch u := t.Underlying().(type) {
	case *types.Basic:
		if u.Info()&types.IsInteger != 0 {
			e := fmt.Sprintf("(%s %s)", g.uf(name, 1, "Int"), a.T)
			lo, hi, _ := rangeOf(t)
			g.assume(st, fmt.Sprintf("(and (<= %s %s) (<= %s %s))", lo, e, e, hi))
			return Val{T: e, Kind: "int"}
		}
		if u.Info()&types.IsBoolean != 0 {
			return Val{T: fmt.Sprintf("(%s %s)", g.uf("is"+name, 1, "Bool"), a.T), Kind: "bool"}
		}
		if u.Info()&types.IsString != 0 && g.opaqueStr {
			return Val{T: fmt.Sprintf("(%s %s)", g.uf(name, 1, "Int"), a.T), Kind: "int"}
		}
	case *types.Pointer, *types.Interface:
		return Val{T: a.T, Kind: "opaque", Ty: t}
	}
	return g.symFor(t, "payload", st)
}

func (g *Gen) binop(st *State, x *ssa.BinOp) Val {
	a, b := g.val(st, x.X), g.val(st, x.Y)
	if a.Kind == "str" && x.Op == token.ADD {
		return g.concat(st, a, b)
	}
	if g.opaqueStr && x.Op == token.ADD && a.Kind == "int" && isStringType(x.X.Type()) {
		// opaque strings: a + b is the term strcat(a, b); only its length is known
		sl := g.uf("strlen", 1, "Int")
		r := fmt.Sprintf("(%s %s %s)", g.uf("strcat", 2, "Int"), a.T, b.T)
		g.assume(st, fmt.Sprintf("(and (= (%s %s) (+ (%s %s) (%s %s))) (<= 0 (%s %s)) (<= 0 (%s %s)))", sl, r, sl, a.T, sl, b.T, sl, a.T, sl, b.T))
		return Val{T: r, Kind: "int"}
	}
	if a.Kind == "opaque" && isFloat(x.X.Type()) {
		if x.Op == token.EQL || x.Op == token.NEQ || x.Op == token.LSS || x.Op == token.LEQ || x.Op == token.GTR || x.Op == token.GEQ {
			return Val{T: g.newSym("fcmp", "Bool"), Kind: "bool"}
		}
		return Val{T: g.newSym("float", "Int"), Kind: "opaque"}
	}
	switch x.Op {
	case token.ADD:
		return Val{T: g.arith(st, x.Type(), fmt.Sprintf("(+ %s %s)", a.T, b.T), x.Pos()), Kind: "int"}
	case token.SUB:
		return Val{T: g.arith(st, x.Type(), fmt.Sprintf("(- %s %s)", a.T, b.T), x.Pos()), Kind: "int"}
	case token.MUL:
		return Val{T: g.arith(st, x.Type(), fmt.Sprintf("(* %s %s)", a.T, b.T), x.Pos()), Kind: "int"}
	case token.QUO, token.REM:
		g.safety(st, "divzero", x.Pos(), fmt.Sprintf("(not (= %s 0))", b.T))
		var q string
		lo, _, _ := rangeOf(x.Type())
		if lo == "0" {
			q = fmt.Sprintf("(div %s %s)", a.T, b.T)
		} else if g.arithWrap {
			q = fmt.Sprintf("(ite (>= %s 0) (ite (> %s 0) (div %s %s) (- (div %s (- %s)))) (ite (> %s 0) (- (div (- %s) %s)) (div (- %s) (- %s))))", a.T, b.T, a.T, b.T, a.T, b.T, b.T, a.T, b.T, a.T, b.T)
		} else {
			g.oblige(st, "side", fmt.Sprintf("divsign#%d", g.ord("divsign")), g.line(x.Pos()), fmt.Sprintf("(and (>= %s 0) (> %s 0))", a.T, b.T))
			q = fmt.Sprintf("(div %s %s)", a.T, b.T)
		}
		q = g.def("q", "Int", q)
		if x.Op == token.QUO {
			if g.arithWrap && lo != "0" {
				return Val{T: g.def("w", "Int", wrapT(x.Type(), q)), Kind: "int"} // MinInt / -1
			}
			return Val{T: q, Kind: "int"}
		}
		if !g.arithWrap || lo == "0" {
			return Val{T: g.def("r", "Int", fmt.Sprintf("(mod %s %s)", a.T, b.T)), Kind: "int"}
		}
		return Val{T: g.def("r", "Int", fmt.Sprintf("(- %s (* %s %s))", a.T, b.T, q)), Kind: "int"}
	case token.AND, token.OR, token.XOR, token.AND_NOT:
		return g.bitop(st, x, a, b)
	case token.SHR:
		if c, ok := x.Y.(*ssa.Const); ok {
			k, _ := constant.Int64Val(c.Value)
			if k < 63 {
				return Val{T: fmt.Sprintf("(div %s %d)", a.T, int64(1)<<uint(k)), Kind: "int"}
			}
		}
	case token.SHL:
		if c, ok := x.Y.(*ssa.Const); ok {
			k, _ := constant.Int64Val(c.Value)
			if k < 62 {
				return Val{T: g.arith(st, x.Type(), fmt.Sprintf("(* %s %d)", a.T, int64(1)<<uint(k)), x.Pos()), Kind: "int"}
			}
		}
		if c, ok := x.X.(*ssa.Const); ok { // const << k with k a small symbolic amount
			if v, exact := constant.Int64Val(c.Value); exact && v == 1 {
				r := g.newSym("shl", "Int")
				for k := 0; k < 63; k++ {
					g.assume(st, fmt.Sprintf("(=> (= %s %d) (= %s %d))", b.T, k, r, int64(1)<<uint(k)))
				}
				return Val{T: r, Kind: "int"}
			}
		}
	case token.EQL, token.NEQ:
		e := g.eqVals(st, a, b)
		if x.Op == token.NEQ {
			e = not(e)
		}
		return Val{T: e, Kind: "bool"}
	case token.LSS, token.LEQ, token.GTR, token.GEQ:
		if a.Kind == "str" {
			return Val{T: g.newSym("strcmp", "Bool"), Kind: "bool"}
		}
		op := map[token.Token]string{token.LSS: "<", token.LEQ: "<=", token.GTR: ">", token.GEQ: ">="}[x.Op]
		return Val{T: fmt.Sprintf("(%s %s %s)", op, a.T, b.T), Kind: "bool"}
	}
	panic(oos("unsupported binop " + x.String()))
}

func isFloat(t types.Type) bool {
	b, ok := t.Underlying().(*types.Basic)
	return ok && b.Info()&types.IsFloat != 0
}

// eqVals: equality of two values (strings compare by content through an uninterpreted
// extensional check when both lengths are symbolic).
func (g *Gen) eqVals(st *State, a, b Val) string {
	if a.Kind == "str" || b.Kind == "str" {
		if a.Len == "0" || b.Len == "0" {
			return fmt.Sprintf("(= %s %s)", a.Len, b.Len)
		}
		// constant on one side: expand pointwise
		var k int
		if _, err := fmt.Sscan(b.Len, &k); err == nil && k <= 64 {
			return g.strEqConst(st, a, b, k)
		}
		if _, err := fmt.Sscan(a.Len, &k); err == nil && k <= 64 {
			return g.strEqConst(st, b, a, k)
		}
		q := "k!eq"
		return fmt.Sprintf("(and (= %s %s) (forall ((%s Int)) (=> (and (<= 0 %s) (< %s %s)) (= (select %s (+ %s %s)) (select %s (+ %s %s))))))", a.Len, b.Len, q, q, q, a.Len, g.arr(st, a), a.Off, q, g.arr(st, b), b.Off, q)
	}
	if a.Kind == "map" || b.Kind == "map" {
		ar, br := a.Ref, b.Ref
		if ar == "" {
			ar = a.T
		}
		if br == "" {
			br = b.T
		}
		return fmt.Sprintf("(= %s %s)", ar, br)
	}
	if a.Kind == "slice" || b.Kind == "slice" { // only comparison with nil is legal Go
		av := a
		if av.Ref == "0" || (av.Ref == "" && av.T == "") {
			av = b
		}
		if av.Ref != "" {
			return fmt.Sprintf("(= %s 0)", av.Ref)
		}
		return "false" // value-form sequences are never nil
	}
	if a.Kind == "struct" || a.Kind == "tuple" {
		var cs []string
		for i := range a.Tup {
			cs = append(cs, g.eqVals(st, a.Tup[i], b.Tup[i]))
		}
		return "(and true " + strings.Join(cs, " ") + ")"
	}
	if a.Kind == "ptr" || b.Kind == "ptr" {
		if a.Kind == "ptr" && b.Kind == "ptr" {
			return fmt.Sprint(a.Cell == b.Cell)
		}
		return "false" // pointer to a local is never nil
	}
	if a.Kind == "closure" || b.Kind == "closure" {
		return "false"
	}
	return fmt.Sprintf("(= %s %s)", a.T, b.T)
}

func (g *Gen) strEqConst(st *State, a, c Val, k int) string {
	cs := []string{fmt.Sprintf("(= %s %d)", a.Len, k)}
	for j := 0; j < k; j++ {
		cs = append(cs, fmt.Sprintf("(= (select %s (+ %s %d)) (select %s (+ %s %d)))", g.arr(st, a), a.Off, j, g.arr(st, c), c.Off, j))
	}
	return g.def("seq", "Bool", "(and "+strings.Join(cs, " ")+")")
}

func (g *Gen) concat(st *State, a, b Val) Val {
	var k int
	if _, err := fmt.Sscan(b.Len, &k); err == nil && k <= 32 {
		arr := g.arr(st, a)
		for j := 0; j < k; j++ {
			arr = fmt.Sprintf("(store %s (+ %s %s %d) (select %s (+ %s %d)))", arr, a.Off, a.Len, j, g.arr(st, b), b.Off, j)
		}
		return Val{T: g.def("cat", "(Array Int Int)", arr), Len: g.def("len", "Int", fmt.Sprintf("(+ %s %d)", a.Len, k)), Off: a.Off, Kind: "str"}
	}
	// general concatenation: fresh array characterised pointwise
	l := g.def("len", "Int", fmt.Sprintf("(+ %s %s)", a.Len, b.Len))
	arr := g.seqJoin(st, "cat", g.arr(st, a), a.Off, a.Len, g.arr(st, b), b.Off, b.Len, "0")
	return Val{T: arr, Len: l, Off: "0", Kind: "str"}
}

func (g *Gen) bitop(st *State, x *ssa.BinOp, a, b Val) Val {
	if a.Kind == "bool" {
		switch x.Op {
		case token.AND:
			return boolV(fmt.Sprintf("(and %s %s)", a.T, b.T))
		case token.OR:
			return boolV(fmt.Sprintf("(or %s %s)", a.T, b.T))
		case token.XOR:
			return boolV(fmt.Sprintf("(xor %s %s)", a.T, b.T))
		}
	}
	if x.Op == token.AND {
		if c, ok := x.Y.(*ssa.Const); ok {
			if m, exact := constant.Int64Val(c.Value); exact {
				if m >= 0 && (m+1)&m == 0 {
					return Val{T: fmt.Sprintf("(mod %s %d)", a.T, m+1), Kind: "int"}
				}
				if m > 0 && m&(m-1) == 0 {
					return Val{T: fmt.Sprintf("(* %d (mod (div %s %d) 2))", m, a.T, m), Kind: "int"}
				}
			}
		}
		if len(g.c.Masks) > 0 {
			r := g.newSym("bitand", "Int")
			g.assume(st, fmt.Sprintf("(=> (= %s 0) (= %s 0))", b.T, r))
			for _, c := range g.c.Masks {
				g.assume(st, fmt.Sprintf("(=> (= %s %d) (= %s (* %d (mod (div %s %d) 2))))", b.T, c, r, c, a.T, c))
			}
			return Val{T: r, Kind: "int"}
		}
	}
	if x.Op == token.AND_NOT {
		// x &^ m for a constant low-bit mask m = 2^k - 1 and non-negative x: x - x mod 2^k
		if c, ok := x.Y.(*ssa.Const); ok {
			if m, exact := constant.Int64Val(c.Value); exact && m >= 0 && (m+1)&m == 0 {
				if lo, _, okr := rangeOf(x.X.Type()); okr && lo == "0" {
					return Val{T: fmt.Sprintf("(- %s (mod %s %d))", a.T, a.T, m+1), Kind: "int"}
				}
			}
		}
	}
	if x.Op == token.OR {
		// x | c where the low bits of x covered by c are known zero is not derivable here; give bounds only
	}
	// unmodelled bit operation: result unconstrained within its type (sound over-approximation)
	g.unmodelled["bitop "+x.Op.String()+" (result only bounded, not computed)"] = true
	r := g.symFor(x.Type(), "bitop", st)
	if x.Op == token.XOR {
		// a ^ b is at least a function of its operands: the uninterpreted bxor(a, b) (spec builtin xor)
		g.assume(st, fmt.Sprintf("(= %s (%s %s %s))", r.T, g.uf("bxor", 2, "Int"), a.T, b.T))
	}
	nonneg := fmt.Sprintf("(and (>= %s 0) (>= %s 0))", a.T, b.T)
	switch x.Op {
	case token.AND:
		g.assume(st, fmt.Sprintf("(=> %s (and (>= %s 0) (<= %s %s) (<= %s %s)))", nonneg, r.T, r.T, a.T, r.T, b.T))
	case token.OR, token.XOR:
		if x.Op == token.XOR { // x ^ 0 == x, x ^ -1 == ^x == -x-1 (branch-free abs idiom)
			g.assume(st, fmt.Sprintf("(and (=> (= %s 0) (= %s %s)) (=> (= %s 0) (= %s %s)) (=> (= %s (- 1)) (= %s (- (- %s) 1))) (=> (= %s (- 1)) (= %s (- (- %s) 1))))", b.T, r.T, a.T, a.T, r.T, b.T, b.T, r.T, a.T, a.T, r.T, b.T))
		}
		lower := "0"
		if x.Op == token.OR {
			lower = fmt.Sprintf("(ite (>= %s %s) %s %s)", a.T, b.T, a.T, b.T)
		}
		g.assume(st, fmt.Sprintf("(=> %s (and (>= %s %s) (<= %s (+ %s %s))))", nonneg, r.T, lower, r.T, a.T, b.T))
		for _, k := range []string{"256", "65536", "4294967296"} {
			g.assume(st, fmt.Sprintf("(=> (and %s (< %s %s) (< %s %s)) (< %s %s))", nonneg, a.T, k, b.T, k, r.T, k))
		}
	}
	return r
}

func getPath(v Val, path []string) Val {
	for _, p := range path {
		var i int
		fmt.Sscan(p, &i)
		if i >= len(v.Tup) {
			panic(oos("field path into a non-struct value"))
		}
		v = v.Tup[i]
	}
	return v
}

func setPath(v Val, path []string, nv Val) Val {
	if len(path) == 0 {
		return nv
	}
	var i int
	fmt.Sscan(path[0], &i)
	if i >= len(v.Tup) {
		panic(oos("field path into a non-struct value"))
	}
	nt := append([]Val{}, v.Tup...)
	nt[i] = setPath(nt[i], path[1:], nv)
	v.Tup = nt
	return v
}

func isMap(t types.Type) bool {
	_, ok := t.Underlying().(*types.Map)
	return ok
}

func hasLoop(f *ssa.Function) bool {
	for _, b := range f.Blocks {
		for _, s := range b.Succs {
			if s.Dominates(b) {
				return true
			}
		}
	}
	return false
}

// isScalarCell: integer and bool pointees get a heap array of their own ("*int64", "*bool", ...).
func isScalarCell(t types.Type) bool {
	if _, _, ok := rangeOf(t); ok {
		return true
	}
	return isBoolType(t)
}

func derefKey(g *Gen, t types.Type) string {
	key := "*" + types.Unalias(t).String()
	if i := strings.LastIndex(key, "/"); i >= 0 {
		key = "*" + key[i+1:]
	}
	if _, ok := g.heapSort[key]; !ok {
		srt := "(Array Int Int)"
		if isBoolType(t) {
			srt = "(Array Int Bool)"
		}
		g.heapSort[key] = srt
	}
	return key
}
