package main

import (
	"fmt"
	"go/token"
	"strings"
)

// `fresh label: [cond ::] expr` — the slice (or pointer) expr of the result was allocated during the
// call whenever cond holds. The callee proves that the reference is one of the objects it allocated
// (directly, or obtained through a callee's own fresh clause); the caller may then store through it
// without a modifies clause and knows it differs from every object it already had.

func splitFresh(src string) (cond, expr string) {
	if i := strings.Index(src, "::"); i >= 0 {
		return strings.TrimSpace(src[:i]), strings.TrimSpace(src[i+2:])
	}
	return "true", strings.TrimSpace(src)
}

func (g *Gen) specVal(st *State, src string, env map[string]Val) Val {
	p := &sp{toks: lex(src), g: g, st: st, env: env, src: src}
	v := p.iff()
	if p.i != len(p.toks) {
		panic(specErr{fmt.Sprintf("spec: trailing tokens in %q at %d", src, p.i)})
	}
	return v
}

func freshRefOf(v Val, src string) string {
	switch {
	case v.Kind == "slice" && v.Ref != "":
		return v.Ref
	case v.Kind == "opaque" && v.T != "":
		return v.T
	}
	panic(specErr{"fresh: " + src + " is neither a slice nor a pointer"})
}

func (g *Gen) freshObls(st *State, env map[string]Val, pos token.Pos, k int) {
	for i, e := range g.c.Fresh {
		cond, expr := splitFresh(e.Expr)
		ref := freshRefOf(g.specVal(st, expr, env), expr)
		var alts []string
		for _, r := range sortedKeysB(st.fresh) {
			alts = append(alts, fmt.Sprintf("(= %s %s)", ref, r))
		}
		goal := fmt.Sprintf("(=> %s (or %s false))", g.spec(st, cond, env), strings.Join(alts, " "))
		n := len(g.obls)
		g.oblige(st, "post", fmt.Sprintf("fresh[%s]@ret%d", clauseName(e, i), k), g.line(pos), goal)
		if len(g.obls) > n {
			g.obls[n].Props = e.Props
		}
	}
}

func (g *Gen) freshAssume(st *State, cc *Contract, env map[string]Val) {
	for _, e := range cc.Fresh {
		cond, expr := splitFresh(e.Expr)
		ref := freshRefOf(g.specVal(st, expr, env), expr)
		c := g.spec(st, cond, env)
		// the fresh object is distinct from every other known object; the result's own reference
		// symbol is one of the known ones (results are registered when they are bound) and must be
		// left out, or the equality below contradicts the distinctness and the rest of the path
		// becomes vacuous
		fr := g.newSym("ref", "Int")
		g.assume(st, fmt.Sprintf("(> %s 0)", fr))
		g.assume(st, fmt.Sprintf("(> %s %s)", fr, g.allocMark()))
		for _, o := range st.refs {
			if o != ref {
				g.assume(st, fmt.Sprintf("(not (= %s %s))", fr, o))
			}
		}
		st.refs = append(st.refs, fr)
		st.fresh[fr] = true
		g.assume(st, fmt.Sprintf("(=> %s (= %s %s))", c, ref, fr))
	}
}
