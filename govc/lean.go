package main

import (
	"os/exec"
	"path/filepath"
	"strings"
	"time"
)

// leanSchemas re-checks the induction schemas with the Lean kernel; each named theorem that the
// property's argument uses counts as one obligation (discharged iff `lean` accepts the file and the
// theorem is present in it).
func leanSchemas(verif string, names []string) *FuncResult {
	fr := &FuncResult{Key: "lean/Schemas.lean", Short: "lean.Schemas", Contract: &Contract{File: filepath.Join(verif, "lean", "Schemas.lean")}}
	t0 := time.Now()
	cmd := exec.Command("lean", "Schemas.lean")
	cmd.Dir = filepath.Join(verif, "lean")
	out, err := cmd.CombinedOutput()
	secs := time.Since(t0).Seconds()
	src, _ := exec.Command("cat", filepath.Join(verif, "lean", "Schemas.lean")).Output()
	for _, n := range names {
		o := Obl{Name: "schema[" + n + "]", Kind: "schema", Solver: "lean", Secs: secs / float64(len(names))}
		switch {
		case err != nil || strings.Contains(string(out), "error") || strings.Contains(string(out), "sorry"):
			o.Result = "error: lean: " + strings.TrimSpace(string(out))
		case !strings.Contains(string(src), "theorem "+n+" "):
			o.Result = "error: theorem " + n + " not found in Schemas.lean"
		default:
			o.Result = "unsat"
		}
		fr.Obls = append(fr.Obls, o)
	}
	return fr
}
