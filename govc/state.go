package main

import (
	"os"
	"strconv"
	"fmt"
	"go/constant"
	"go/token"
	"go/types"
	"sort"
	"strings"

	"golang.org/x/tools/go/ssa"
)

// ---------------------------------------------------------------- values and state

type Val struct {
	Kind string // int bool slice str err tuple struct opaque ptr elemptr fieldcell heapfield globptr globmap closure map garrbool garrint
	T    string
	Len  string
	Off  string
	Tup  []Val
	Cell *ssa.Alloc
	Elem *Val
	Idx  string
	Ref  string // slices backed by the array heap: reference into Hs
	Heap string // spec values: heap version to read from ("" = current)
	Obj  string // value-form view of a heap object (buffer): the object's reference, for ref()
	FnSpec string // function value read from a struct field: "Type.field" (its behaviour spec applies)
	Fn   *ssa.Function
	Bind []Val
	Ty   types.Type
}

type State struct {
	pc      string
	cells   map[*ssa.Alloc]Val
	ghost   map[string]Val
	globs   map[string]Val
	fv      map[*ssa.FreeVar]Val
	defers  map[*ssa.Defer]string // registered flag (Bool term)
	heap    map[string]string     // "Type.field" -> array term
	hs      string                // array heap: (Array Int (Array Int Int))
	hsf     map[string]string     // per-field array heaps for slices of structs: "Type.field" -> term
	mdom    map[string]string     // map ref -> (Array Int Bool)
	mval    map[string]string     // map ref -> (Array Int Bool|Int)
	refs    []string
	fresh   map[string]bool // refs allocated by the function under verification
	esc     map[string]bool // fresh refs that were handed to code outside the function (may be aliased by later results)
	from    *ssa.BasicBlock
	lemmaIt int
	// epochs: which "everything was havocked" event(s) the struct-field heap of this state descends
	// from (empty: the entry heap). A field that is first mentioned after such a havoc must not read the
	// entry heap H0: heapGet gives it the array of that epoch (one shared name per epoch and field).
	epochs []epochAlt
}

type epochAlt struct{ sel, ep string }

func newState() *State {
	return &State{pc: "true", cells: map[*ssa.Alloc]Val{}, ghost: map[string]Val{}, globs: map[string]Val{}, fv: map[*ssa.FreeVar]Val{}, defers: map[*ssa.Defer]string{}, heap: map[string]string{}, mdom: map[string]string{}, mval: map[string]string{}, fresh: map[string]bool{}, esc: map[string]bool{}, hsf: map[string]string{}}
}

func (s *State) clone() *State {
	n := newState()
	n.pc = s.pc
	for k, v := range s.cells {
		n.cells[k] = v
	}
	for k, v := range s.ghost {
		n.ghost[k] = v
	}
	for k, v := range s.globs {
		n.globs[k] = v
	}
	for k, v := range s.fv {
		n.fv[k] = v
	}
	for k, v := range s.defers {
		n.defers[k] = v
	}
	for k, v := range s.heap {
		n.heap[k] = v
	}
	for k, v := range s.fresh {
		n.fresh[k] = v
	}
	for k, v := range s.esc {
		n.esc[k] = v
	}
	for k, v := range s.hsf {
		n.hsf[k] = v
	}
	n.lemmaIt = s.lemmaIt
	n.epochs = append([]epochAlt{}, s.epochs...)
	n.hs = s.hs
	n.from = s.from
	n.refs = append([]string{}, s.refs...)
	for k, v := range s.mdom {
		n.mdom[k] = v
	}
	for k, v := range s.mval {
		n.mval[k] = v
	}
	return n
}

type Obl struct {
	Name  string
	Kind  string // post xpost pre callpre inv.entry inv.step lemma safety side frame cover
	Pc    string
	Goal  string
	Line  int
	Cover bool // must be SAT (vacuity guard) instead of UNSAT
	Props []string // non-empty: counts only for these properties
	// filled by the solver stage
	Result string
	Solver string
	Secs   float64
	Model  string
	Bytes  int
}

type Def struct {
	Name, Sort, Body string
}

type Gen struct {
	fn        *ssa.Function
	c         *Contract
	cs        *ContractSet
	short     string // display name pkg.Func
	decls     map[string]string
	declOrder []string
	defs      []Def
	fresh     int
	obls      []Obl
	regs      map[ssa.Value]Val
	env       map[string]Val
	lemma     *Lemma
	lemmaHdr  *ssa.BasicBlock
	backStates []*State
	entryHs    string
	entryHeap  map[string]string
	mapValKind map[string]string
	entryMdom  map[string]string
	entryMval  map[string]string
	entryGhost map[string]Val
	specFn     *ssa.Function
	lemmaVars  map[string]Val
	heapSort   map[string]string
	ufuns      map[string]string
	counters   map[string]int
	opaqueStr  bool
	arithWrap  bool
	paramVals  map[string]Val
	inlineSet  map[string]bool
	depth      int
	trustedUsed map[string]bool
	sinkRefs    map[string]bool      // identities of byte sinks that exist at entry (io.Writer parameters)
	bindingParams bool // true while the parameters of the function under verification are being bound
	loopExit    map[int][]string // per loop: pc of every edge leaving the loop
	retReach    map[int][]string // per ensures clause: pc && antecedent at every return reached
	cpReach     map[int][]string // per callpre clause: pc at every call it was checked at
	clauseBound map[string]bool      // callpre/ghostset/observe clauses that matched at least one call
	clauseEval  map[string]bool      // callpre clauses that were evaluated (all their names in scope) at some call
	secReaders  map[string][3]string // *io.SectionReader term -> (ReaderAt identity, offset, length)
	unmodelled  map[string]bool
	sideFailed  bool
	modelVars   []string
	specTypes   map[string]types.Type
	freshErrs      []string
	foreignErrList []string
	capturedCells map[*ssa.Alloc]bool
	hsfSorts    map[string]string
	entryHsf    map[string]string
	globInit    map[string]Val
	hashSize    map[string]int // hash object -> digest size, for objects made by a known constructor
	globFacts   map[string]string
	refRange    map[string][2]string
	constFacts  map[string]string // opaque string constant id -> length/byte facts
	axioms      map[string]string // opaque spec function symbol -> definitional axiom
	splitCallee string
	splitVal    string
}

func newGen(cs *ContractSet, fn *ssa.Function, c *Contract, wrapMode bool) *Gen {
	g := &Gen{cs: cs, fn: fn, c: c, decls: map[string]string{}, regs: map[ssa.Value]Val{}, heapSort: map[string]string{}, entryHeap: map[string]string{}, mapValKind: map[string]string{}, entryMdom: map[string]string{}, entryMval: map[string]string{}, ufuns: map[string]string{}, lemmaVars: map[string]Val{}, counters: map[string]int{}, paramVals: map[string]Val{}, inlineSet: map[string]bool{}, trustedUsed: map[string]bool{}, unmodelled: map[string]bool{}, entryGhost: map[string]Val{}, specTypes: map[string]types.Type{}}
	// GOVC_PERTURB=n shifts the numbering of generated symbols (what an unrelated ghost declaration or
	// contract elsewhere does): the robustness sweep re-runs every check under several shifts, because
	// an obligation that is decided only under one numbering is a false alarm waiting to happen
	if n, err := strconv.Atoi(os.Getenv("GOVC_PERTURB")); err == nil {
		g.fresh = n
	}
	g.opaqueStr = c.Opt("opaque_strings") != ""
	g.arithWrap = wrapMode || c.Opt("arith") == "wrap"
	for _, n := range c.Inline {
		g.inlineSet[n] = true
	}
	return g
}

func (g *Gen) hsGet(st *State) string {
	if st.hs == "" {
		n := "|Hs0|"
		if _, ok := g.decls[n]; !ok {
			g.decls[n] = "(Array Int (Array Int Int))"
			g.declOrder = append(g.declOrder, n)
		}
		st.hs = n
	}
	return st.hs
}

// arr returns the array term holding v's elements in state st.
func (g *Gen) arr(st *State, v Val) string {
	if v.Ref == "" {
		if v.T == "" {
			return "((as const (Array Int Int)) 0)"
		}
		return v.T
	}
	h := g.hsGet(st)
	if v.Heap != "" {
		h = v.Heap
	}
	return fmt.Sprintf("(select %s %s)", h, v.Ref)
}

// allocMark: every object that exists when the function is entered has an identity <= alloc0, every
// object the function allocates has a larger one (so a fresh object can never be an object that is
// only discovered later by reading the entry heap).
func (g *Gen) allocMark() string {
	n := "|alloc0|"
	if _, ok := g.decls[n]; !ok {
		g.decls[n] = "Int"
		g.declOrder = append(g.declOrder, n)
	}
	return n
}

func (g *Gen) freshRef(st *State) string {
	r := g.newSym("ref", "Int")
	g.assume(st, fmt.Sprintf("(> %s 0)", r))
	g.assume(st, fmt.Sprintf("(> %s %s)", r, g.allocMark()))
	for _, o := range st.refs {
		g.assume(st, fmt.Sprintf("(not (= %s %s))", r, o))
	}
	st.refs = append(st.refs, r)
	st.fresh[r] = true
	return r
}

func (g *Gen) heapGet(st *State, key string) string {
	if a, ok := st.heap[key]; ok {
		return a
	}
	at := func(ep string) string {
		n := "|H0." + key + "|"
		if ep != "" {
			n = "|H." + key + "@" + ep + "|"
		}
		if _, ok := g.decls[n]; !ok {
			g.decls[n] = g.heapSort[key]
			g.declOrder = append(g.declOrder, n)
		}
		return n
	}
	if len(st.epochs) == 0 {
		return at("")
	}
	e := at(st.epochs[len(st.epochs)-1].ep)
	for i := len(st.epochs) - 2; i >= 0; i-- {
		if t := at(st.epochs[i].ep); t != e {
			e = fmt.Sprintf("(ite %s %s %s)", st.epochs[i].sel, t, e)
		}
	}
	st.heap[key] = e
	return e
}

func sameEpochs(a, b []epochAlt) bool {
	if len(a) != len(b) {
		return false
	}
	for i := range a {
		if a[i] != b[i] {
			return false
		}
	}
	return true
}

func typeName(t types.Type) string {
	if p, ok := t.Underlying().(*types.Pointer); ok {
		t = p.Elem()
	}
	if n, ok := types.Unalias(t).(*types.Named); ok {
		return n.Obj().Name()
	}
	return t.String()
}

func isBoolType(t types.Type) bool {
	b, ok := t.Underlying().(*types.Basic)
	return ok && b.Info()&types.IsBoolean != 0
}

func (g *Gen) heapKey(t types.Type, idx int) (string, types.Type) {
	if p, ok := t.Underlying().(*types.Pointer); ok {
		t = p.Elem()
	}
	stt := t.Underlying().(*types.Struct)
	f := stt.Field(idx)
	key := typeName(t) + "." + f.Name()
	if _, ok := g.heapSort[key]; !ok {
		srt := "(Array Int Int)"
		if isBoolType(f.Type()) {
			srt = "(Array Int Bool)"
		}
		g.heapSort[key] = srt
	}
	return key, f.Type()
}

func (g *Gen) uf(name string, nargs int, ret string) string {
	q := "|" + name + "|"
	if _, ok := g.ufuns[q]; !ok {
		if nargs == 0 {
			g.ufuns[q] = fmt.Sprintf("(declare-const %s %s)", q, ret)
		} else {
			args := strings.TrimSpace(strings.Repeat("Int ", nargs))
			g.ufuns[q] = fmt.Sprintf("(declare-fun %s (%s) %s)", q, args, ret)
		}
	}
	return q
}

const (
	minInt  = "(- 9223372036854775808)"
	maxInt  = "9223372036854775807"
	maxLen  = "281474976710656" // 2^48: every slice/string/map length (address-space fact, DESIGN 8.3)
	emptyAr = "((as const (Array Int Int)) 0)"
)

func (g *Gen) newSym(prefix, sort string) string {
	g.fresh++
	prefix = strings.NewReplacer("|", "_", "\\", "_").Replace(prefix)
	n := fmt.Sprintf("|%s!%d|", prefix, g.fresh)
	g.decls[n] = sort
	g.declOrder = append(g.declOrder, n)
	return n
}

// def introduces a named definition (keeps shared sub-terms small).
func (g *Gen) def(prefix, sort, body string) string {
	if len(body) < 40 {
		return body
	}
	g.fresh++
	n := fmt.Sprintf("|%s!%d|", prefix, g.fresh)
	g.defs = append(g.defs, Def{n, sort, body})
	return n
}

func and(a, b string) string {
	if a == "true" {
		return b
	}
	if b == "true" {
		return a
	}
	return "(and " + a + " " + b + ")"
}
func not(a string) string { return "(not " + a + ")" }

func (g *Gen) assume(st *State, phi string) { st.pc = g.def("pc", "Bool", and(st.pc, phi)) }

func (g *Gen) ord(kind string) int {
	g.counters[kind]++
	return g.counters[kind]
}

func (g *Gen) line(p token.Pos) int {
	if !p.IsValid() {
		return 0
	}
	return g.fn.Prog.Fset.Position(p).Line
}

// oblige records an obligation and assumes its goal afterwards (so later obligations are not
// polluted by earlier failures).
func (g *Gen) oblige(st *State, kind, name string, line int, goal string) {
	if g.lemma != nil && kind != "lemma" {
		// Inside a loop lemma the start state is arbitrary; memory safety, frames, callee
		// preconditions and arithmetic side conditions are decided by the main pass (under the loop
		// invariants) and are only assumed here: the lemma is a partial-correctness statement.
		g.assume(st, goal)
		return
	}
	g.obls = append(g.obls, Obl{Name: name, Kind: kind, Pc: st.pc, Goal: goal, Line: line})
	g.assume(st, goal)
}

func rangeOf(t types.Type) (string, string, bool) {
	b, ok := t.Underlying().(*types.Basic)
	if !ok {
		return "", "", false
	}
	switch b.Kind() {
	case types.Int, types.Int64, types.UntypedInt:
		return minInt, maxInt, true
	case types.Int32, types.UntypedRune:
		return "(- 2147483648)", "2147483647", true
	case types.Int16:
		return "(- 32768)", "32767", true
	case types.Int8:
		return "(- 128)", "127", true
	case types.Uint8:
		return "0", "255", true
	case types.Uint16:
		return "0", "65535", true
	case types.Uint32:
		return "0", "4294967295", true
	case types.Uint, types.Uint64, types.Uintptr:
		return "0", "18446744073709551615", true
	}
	return "", "", false
}

func is64(t types.Type) bool {
	b, ok := t.Underlying().(*types.Basic)
	if !ok {
		return false
	}
	switch b.Kind() {
	case types.Int, types.Int64, types.Uint, types.Uint64, types.Uintptr:
		return true
	}
	return false
}

func strID(s string) string {
	if s == "" {
		return "0"
	}
	h := int64(7)
	for i := 0; i < len(s); i++ {
		h = (h*131 + int64(s[i])) % 1000000007
	}
	return fmt.Sprint(h + 1)
}

func wrapT(t types.Type, e string) string {
	lo, hi, ok := rangeOf(t)
	if !ok {
		return e
	}
	m := fmt.Sprintf("(+ (- %s %s) 1)", hi, lo)
	return fmt.Sprintf("(+ %s (mod (- %s %s) %s))", lo, e, lo, m)
}

// arith encodes a Go +,-,* result of type t. Narrow types always wrap exactly. 64-bit types:
// in wrap mode exact; otherwise a `side` no-overflow obligation is emitted and the plain term used.
func (g *Gen) arith(st *State, t types.Type, e string, pos token.Pos) string {
	lo, hi, ok := rangeOf(t)
	if !ok {
		return e
	}
	if !is64(t) || g.arithWrap {
		return g.def("w", "Int", wrapT(t, e))
	}
	d := g.def("a", "Int", e)
	g.oblige(st, "side", fmt.Sprintf("overflow#%d", g.ord("overflow")), g.line(pos), fmt.Sprintf("(and (<= %s %s) (<= %s %s))", lo, d, d, hi))
	return d
}

func sortOf(v Val) string {
	if strings.HasPrefix(v.Kind, "heaparr:") {
		return v.Kind[8:]
	}
	switch v.Kind {
	case "garrbool":
		return "(Array Int Bool)"
	case "garrint":
		return "(Array Int Int)"
	case "bool":
		return "Bool"
	case "slice", "str":
		return "(Array Int Int)"
	}
	return "Int"
}

func isBufType(t types.Type) bool {
	s := t.String()
	return s == "bytes.Buffer" || s == "strings.Builder"
}

func (g *Gen) symFor(t types.Type, name string, st *State) Val {
	if isBufType(t) {
		return g.symBuf(name, st)
	}
	switch u := t.Underlying().(type) {
	case *types.Basic:
		if u.Info()&types.IsBoolean != 0 {
			return Val{T: g.newSym(name, "Bool"), Kind: "bool"}
		}
		if u.Info()&types.IsInteger != 0 {
			s := g.newSym(name, "Int")
			lo, hi, _ := rangeOf(t)
			g.assume(st, fmt.Sprintf("(and (<= %s %s) (<= %s %s))", lo, s, s, hi))
			return Val{T: s, Kind: "int"}
		}
		if u.Info()&types.IsString != 0 && g.opaqueStr {
			return Val{T: g.newSym(name, "Int"), Kind: "int"}
		}
		if u.Info()&types.IsString != 0 {
			a := g.newSym(name, "(Array Int Int)")
			l := g.newSym(name+"_len", "Int")
			g.assume(st, fmt.Sprintf("(and (<= 0 %s) (<= %s %s))", l, l, maxLen))
			return Val{T: a, Len: l, Off: "0", Kind: "str"}
		}
		if u.Info()&types.IsFloat != 0 {
			return Val{T: g.newSym(name, "Int"), Kind: "opaque"}
		}
	case *types.Slice:
		r := g.newSym(name+"_ref", "Int")
		l := g.newSym(name+"_len", "Int")
		o := g.newSym(name+"_off", "Int")
		g.assume(st, fmt.Sprintf("(and (<= 0 %s) (<= %s %s) (<= 0 %s) (<= %s %s) (>= %s 0) (=> (= %s 0) (= %s 0)))", l, l, maxLen, o, o, maxLen, r, r, l))
		st.refs = append(st.refs, r)
		if g.bindingParams {
			g.assume(st, fmt.Sprintf("(<= %s %s)", r, g.allocMark())) // a parameter's backing array existed at entry
		}
		g.noteElemRange(st, r, u.Elem())
		return Val{Ref: r, Len: l, Off: o, Kind: "slice", Ty: t}
	case *types.Array:
		// arrays are values: a symbolic array is a private (fresh) backing store with arbitrary contents
		r := g.freshRef(st)
		_ = g.hsGet(st)
		return Val{Ref: r, Len: fmt.Sprint(u.Len()), Off: "0", Kind: "slice", Ty: t}
	case *types.Map:
		r := g.newSym(name+"_ref", "Int")
		g.assume(st, fmt.Sprintf("(>= %s 0)", r))
		vk, vs := "garrint", "(Array Int Int)"
		if isBoolType(u.Elem()) {
			vk, vs = "garrbool", "(Array Int Bool)"
		}
		g.mapValKind[r] = vk
		st.mdom[r] = g.newSym(name+"_dom", "(Array Int Bool)")
		st.mval[r] = g.newSym(name+"_val", vs)
		if _, ok := g.entryMdom[r]; !ok {
			g.entryMdom[r], g.entryMval[r] = st.mdom[r], st.mval[r]
		}
		return Val{Kind: "map", Ref: r, T: r, Ty: t}
	case *types.Interface:
		iv := g.newSym(name, "Int")
		switch t.String() {
		case "io.Writer", "io.ByteWriter", "io.StringWriter":
			// a byte sink that exists already: objects allocated later are different from it, and so
			// is every backing array (a sink's record in Hs is a model object, not Go memory)
			st.refs = append(st.refs, iv)
			if g.sinkRefs == nil {
				g.sinkRefs = map[string]bool{}
			}
			g.sinkRefs[iv] = true
		}
		return Val{T: iv, Kind: "err", Ty: t}
	case *types.Struct:
		v := Val{Kind: "struct", Ty: t}
		for i := 0; i < u.NumFields(); i++ {
			v.Tup = append(v.Tup, g.symFor(u.Field(i).Type(), name+"."+u.Field(i).Name(), st))
		}
		return v
	case *types.Tuple:
		v := Val{Kind: "tuple"}
		for i := 0; i < u.Len(); i++ {
			v.Tup = append(v.Tup, g.symFor(u.At(i).Type(), fmt.Sprintf("%s_%d", name, i), st))
		}
		return v
	case *types.Pointer:
		s := g.newSym(name, "Int")
		g.assume(st, fmt.Sprintf("(>= %s 0)", s))
		return Val{T: s, Kind: "opaque", Ty: t}
	}
	return Val{T: g.newSym(name, "Int"), Kind: "opaque", Ty: t}
}

// symBuf: append-only byte buffer (bytes.Buffer / strings.Builder) in value form.
func (g *Gen) symBuf(name string, st *State) Val {
	a := g.newSym(name, "(Array Int Int)")
	l := g.newSym(name+"_len", "Int")
	g.assume(st, fmt.Sprintf("(and (<= 0 %s) (<= %s %s))", l, l, maxLen))
	return Val{T: a, Len: l, Off: "0", Kind: "slice"}
}

func (g *Gen) zeroFor(t types.Type) Val {
	if isBufType(t) {
		return Val{T: emptyAr, Len: "0", Off: "0", Kind: "slice"}
	}
	switch u := t.Underlying().(type) {
	case *types.Basic:
		if u.Info()&types.IsBoolean != 0 {
			return Val{T: "false", Kind: "bool"}
		}
		if u.Info()&types.IsInteger != 0 {
			return Val{T: "0", Kind: "int"}
		}
		if u.Info()&types.IsString != 0 {
			if g.opaqueStr {
				return Val{T: "0", Kind: "int"}
			}
			return Val{T: emptyAr, Len: "0", Off: "0", Kind: "str"}
		}
	case *types.Interface:
		return Val{T: "0", Kind: "err", Ty: t}
	case *types.Slice:
		return Val{Ref: "0", Len: "0", Off: "0", Kind: "slice", Ty: t}
	case *types.Struct:
		v := Val{Kind: "struct", Ty: t}
		for i := 0; i < u.NumFields(); i++ {
			v.Tup = append(v.Tup, g.zeroFor(u.Field(i).Type()))
		}
		return v
	case *types.Map:
		return Val{Kind: "map", Ref: "0", T: "0", Ty: t}
	}
	return Val{T: "0", Kind: "opaque", Ty: t}
}

func smtInt(c constant.Value) string {
	s := c.ExactString()
	if strings.HasPrefix(s, "-") {
		return "(- " + s[1:] + ")"
	}
	return s
}

func (g *Gen) strConst(s string) Val {
	if g.opaqueStr {
		id := strID(s)
		// facts about the constant: its length and bytes (emitted with every VC that mentions strlen/strbyte)
		if g.constFacts == nil {
			g.constFacts = map[string]string{}
		}
		if _, ok := g.constFacts[id]; !ok {
			fact := fmt.Sprintf("(= (%s %s) %d)", g.uf("strlen", 1, "Int"), id, len(s))
			if len(s) <= 8 {
				for i := 0; i < len(s); i++ {
					fact = fmt.Sprintf("(and %s (= (%s %s %d) %d))", fact, g.uf("strbyte", 2, "Int"), id, i, s[i])
				}
			}
			g.constFacts[id] = fact
		}
		return Val{T: id, Kind: "int"}
	}
	a := emptyAr
	for i := 0; i < len(s); i++ {
		a = fmt.Sprintf("(store %s %d %d)", a, i, s[i])
	}
	return Val{T: g.def("strc", "(Array Int Int)", a), Len: fmt.Sprint(len(s)), Off: "0", Kind: "str"}
}

func (g *Gen) val(st *State, v ssa.Value) Val {
	switch x := v.(type) {
	case *ssa.Const:
		if x.Value == nil {
			return g.zeroFor(x.Type())
		}
		switch x.Value.Kind() {
		case constant.Bool:
			return Val{T: fmt.Sprint(constant.BoolVal(x.Value)), Kind: "bool"}
		case constant.Int:
			return Val{T: smtInt(x.Value), Kind: "int"}
		case constant.String:
			return g.strConst(constant.StringVal(x.Value))
		}
		return Val{T: g.newSym("const", "Int"), Kind: "opaque"}
	case *ssa.Alloc:
		if r, ok := g.regs[v]; ok { // heap-allocated object
			return r
		}
		return Val{Kind: "ptr", Cell: x}
	case *ssa.Global:
		return Val{T: globKey(x), Kind: "globptr", Ty: x.Type()}
	case *ssa.FreeVar:
		fv, ok := st.fv[x]
		if !ok {
			panic(oos("free variable " + x.Name() + " not bound"))
		}
		return fv
	case *ssa.Function:
		return Val{T: strID(x.String()), Kind: "closure", Fn: x}
	case *ssa.Builtin:
		return Val{T: "0", Kind: "opaque"}
	}
	if r, ok := g.regs[v]; ok {
		return r
	}
	panic(oos(fmt.Sprintf("no value for %s (%T) in %s", v.Name(), v, v.Parent())))
}

type oosErr struct{ msg string }

func oos(msg string) oosErr { return oosErr{msg} }

// ---------------------------------------------------------------- merging

func (g *Gen) mergeVal(sel []string, vs []Val) Val {
	same := true
	for _, v := range vs[1:] {
		if v.T != vs[0].T || v.Len != vs[0].Len || v.Off != vs[0].Off || v.Cell != vs[0].Cell || v.Kind != vs[0].Kind || v.Ref != vs[0].Ref || v.Idx != vs[0].Idx || v.Kind == "struct" || v.Kind == "tuple" {
			same = false
		}
	}
	if same {
		return vs[0]
	}
	out := vs[0]
	for _, v := range vs[1:] {
		if (v.Elem == nil) != (out.Elem == nil) || (v.Elem != nil && (v.Elem.T != out.Elem.T || v.Elem.Cell != out.Elem.Cell)) {
			out.Elem = nil
		}
	}
	mk := func(get func(Val) string, sort string) string {
		e := get(vs[len(vs)-1])
		for i := len(vs) - 2; i >= 0; i-- {
			if get(vs[i]) != e {
				e = fmt.Sprintf("(ite %s %s %s)", sel[i], get(vs[i]), e)
			}
		}
		return g.def("m", sort, e)
	}
	for _, v := range vs[1:] {
		if v.Kind != out.Kind {
			// representation mismatch (e.g. nil slice vs value-form buffer)
			if (v.Kind == "slice" || v.Kind == "str") && (out.Kind == "slice" || out.Kind == "str") {
				continue
			}
			if (v.Kind == "err" || v.Kind == "opaque" || v.Kind == "int") && (out.Kind == "err" || out.Kind == "opaque" || out.Kind == "int") {
				continue
			}
			panic(oos("merge of different value kinds " + out.Kind + "/" + v.Kind))
		}
	}
	switch out.Kind {
	case "ptr", "closure", "elemptr", "fieldcell", "heapfield", "globptr", "globmap":
		panic(oos("merge of distinct " + out.Kind + " values"))
	case "struct", "tuple":
		nt := make([]Val, len(out.Tup))
		for i := range out.Tup {
			var fs []Val
			for _, v := range vs {
				if i >= len(v.Tup) {
					panic(oos("merge of structs of different shape"))
				}
				fs = append(fs, v.Tup[i])
			}
			nt[i] = g.mergeVal(sel, fs)
		}
		out.Tup = nt
		return out
	case "map":
		out.Ref = mk(func(v Val) string { return v.Ref }, "Int")
		out.T = out.Ref
		return out
	}
	anyRef, anyVal := false, false
	for _, v := range vs {
		if v.Ref != "" {
			anyRef = true
		} else if v.Len != "" {
			anyVal = true
		}
	}
	if anyRef && anyVal {
		panic(oos("merge of ref-backed and value-form sequences"))
	}
	if anyRef {
		out.Ref = mk(func(v Val) string { return v.Ref }, "Int")
	} else {
		out.T = mk(func(v Val) string { return v.T }, sortOf(out))
	}
	if out.Len != "" {
		out.Len = mk(func(v Val) string { return v.Len }, "Int")
		out.Off = mk(func(v Val) string { return v.Off }, "Int")
	}
	return out
}

func (g *Gen) merge(ins []*State) *State {
	if len(ins) == 1 {
		return ins[0]
	}
	// a pointer variable that holds the address of a local struct on one path and an ordinary pointer
	// (parameter, callee result, nil) on another: the local is moved to the heap on its path first, so
	// that both paths carry a reference (p = &T{} under `if p == nil`)
	{
		kinds := map[*ssa.Alloc]map[string]bool{}
		for _, s := range ins {
			for c, v := range s.cells {
				if kinds[c] == nil {
					kinds[c] = map[string]bool{}
				}
				k := v.Kind
				if k == "ptr" && v.Cell == nil {
					k = "ptr0"
				}
				kinds[c][k] = true
			}
		}
		for _, s := range ins {
			var cs []*ssa.Alloc
			for c := range s.cells {
				cs = append(cs, c)
			}
			sort.Slice(cs, func(i, j int) bool { return cs[i].Pos() < cs[j].Pos() })
			for _, c := range cs {
				if v := s.cells[c]; v.Kind == "ptr" && v.Cell != nil && (kinds[c]["opaque"] || kinds[c]["err"]) {
					s.cells[c] = g.tryPromote(s, v)
				} else if v.Kind == "struct" {
					// the same for pointer-typed fields of a struct variable (sd.StreamLength = &l on one path)
					s.cells[c] = g.promoteFieldsFor(s, v, func(path []int) bool {
						for _, o := range ins {
							if ov, ok := o.cells[c]; ok && o != s {
								f := ov
								okp := true
								for _, i := range path {
									if f.Kind != "struct" || i >= len(f.Tup) {
										okp = false
										break
									}
									f = f.Tup[i]
								}
								if okp && (f.Kind == "opaque" || f.Kind == "err") {
									return true
								}
							}
						}
						return false
					}, nil)
				}
			}
		}
	}
	out := newState()
	var sel []string
	for _, s := range ins {
		sel = append(sel, s.pc)
	}
	out.pc = g.def("pc", "Bool", "(or "+strings.Join(sel, " ")+")")
	cellset := map[*ssa.Alloc]bool{}
	for _, s := range ins {
		for c := range s.cells {
			cellset[c] = true
		}
	}
	var cells []*ssa.Alloc
	for c := range cellset {
		cells = append(cells, c)
	}
	sort.Slice(cells, func(i, j int) bool {
		if cells[i].Pos() != cells[j].Pos() {
			return cells[i].Pos() < cells[j].Pos()
		}
		return cells[i].Name() < cells[j].Name()
	})
	for _, c := range cells {
		var vs []Val
		ok := true
		for _, s := range ins {
			v, has := s.cells[c]
			if !has {
				ok = false
				break
			}
			vs = append(vs, v)
		}
		if ok {
			out.cells[c] = g.mergeVal(sel, vs)
		}
	}
	for _, k := range sortedKeys(ins[0].ghost) {
		var vs []Val
		for _, s := range ins {
			vs = append(vs, s.ghost[k])
		}
		out.ghost[k] = g.mergeVal(sel, vs)
	}
	for k := range ins[0].fv {
		out.fv[k] = ins[0].fv[k]
	}
	for _, k := range sortedKeys(ins[0].globs) {
		var vs []Val
		ok := true
		for _, s := range ins {
			v, has := s.globs[k]
			if !has {
				ok = false
				break
			}
			vs = append(vs, v)
		}
		if ok {
			out.globs[k] = g.mergeVal(sel, vs)
		}
	}
	anyHs := false
	for _, s := range ins {
		if s.hs != "" {
			anyHs = true
		}
	}
	if anyHs {
		var vs []Val
		for _, s := range ins {
			vs = append(vs, Val{Kind: "heaparr:(Array Int (Array Int Int))", T: g.hsGet(s)})
		}
		out.hs = g.mergeVal(sel, vs).T
	}
	seen := map[string]bool{}
	for _, s := range ins {
		for _, r := range s.refs {
			if !seen[r] {
				seen[r] = true
				out.refs = append(out.refs, r)
			}
		}
		for r := range s.fresh {
			out.fresh[r] = true
		}
		for r := range s.esc {
			out.esc[r] = true
		}
	}
	mk := map[string]bool{}
	for _, s := range ins {
		for k := range s.mdom {
			mk[k] = true
		}
	}
	for _, k := range sortedKeysB(mk) {
		var ds, vs []Val
		ok := true
		for _, s := range ins {
			if _, has := s.mdom[k]; !has {
				ok = false
				break
			}
			ds = append(ds, Val{Kind: "garrbool", T: s.mdom[k]})
			vs = append(vs, Val{Kind: g.mapValKind[k], T: s.mval[k]})
		}
		if ok {
			out.mdom[k] = g.mergeVal(sel, ds).T
			out.mval[k] = g.mergeVal(sel, vs).T
		}
	}
	heapKeys := map[string]bool{}
	for _, s := range ins {
		for k := range s.heap {
			heapKeys[k] = true
		}
	}
	for _, k := range sortedKeysB(heapKeys) {
		var vs []Val
		for _, s := range ins {
			vs = append(vs, Val{Kind: "heaparr:" + g.heapSort[k], T: g.heapGet(s, k)})
		}
		out.heap[k] = g.mergeVal(sel, vs).T
	}
	hsfKeys := map[string]bool{}
	for _, s := range ins {
		for k := range s.hsf {
			hsfKeys[k] = true
		}
	}
	for _, k := range sortedKeysB(hsfKeys) {
		var vs []Val
		isB := g.hsfSorts[k] == hsfSortBool
		for _, s := range ins {
			vs = append(vs, Val{Kind: "heaparr:" + g.hsfSorts[k], T: g.hsfGet(s, k, isB)})
		}
		out.hsf[k] = g.mergeVal(sel, vs).T
	}
	for _, s := range ins {
		for d, f := range s.defers {
			if cur, ok := out.defers[d]; ok {
				out.defers[d] = "(or " + cur + " " + and(s.pc, f) + ")"
			} else {
				out.defers[d] = and(s.pc, f)
			}
		}
	}
	out.lemmaIt = ins[0].lemmaIt
	same := true
	for _, s := range ins[1:] {
		if !sameEpochs(s.epochs, ins[0].epochs) {
			same = false
		}
	}
	if same {
		out.epochs = append([]epochAlt{}, ins[0].epochs...)
	} else {
		for _, s := range ins {
			if len(s.epochs) == 0 {
				out.epochs = append(out.epochs, epochAlt{s.pc, ""})
			}
			for _, a := range s.epochs {
				out.epochs = append(out.epochs, epochAlt{and(s.pc, a.sel), a.ep})
			}
		}
	}
	return out
}

func sortedKeys(m map[string]Val) []string {
	var ks []string
	for k := range m {
		ks = append(ks, k)
	}
	sort.Strings(ks)
	return ks
}

func sortedKeysB(m map[string]bool) []string {
	var ks []string
	for k := range m {
		ks = append(ks, k)
	}
	sort.Strings(ks)
	return ks
}

// promoteFieldsFor promotes every pointer-to-local field of struct value v (recursively) for which
// want(path) holds; it returns the updated struct value.
func (g *Gen) promoteFieldsFor(st *State, v Val, want func(path []int) bool, path []int) Val {
	if v.Kind != "struct" {
		return v
	}
	nt := append([]Val{}, v.Tup...)
	changed := false
	for i, f := range nt {
		p := append(append([]int{}, path...), i)
		switch {
		case f.Kind == "ptr" && f.Cell != nil && want(p):
			if nv := g.tryPromote(st, f); nv.Kind != "ptr" {
				nt[i] = nv
				changed = true
			}
		case f.Kind == "struct":
			nv := g.promoteFieldsFor(st, f, want, p)
			nt[i] = nv
			changed = true
		}
	}
	if changed {
		v.Tup = nt
	}
	return v
}
