package main

import (
	"fmt"
	"go/constant"
	"strings"

	"golang.org/x/tools/go/ssa"
)

// Length model of fmt.Sprintf / fmt.Fprintf for constant formats made of literal text, %%, %s, %d and
// %v with an optional (zero-padded) width - the formats the PDF writer uses. Only the LENGTH of the
// result is modelled (opaque-string mode): literal bytes count as they are, %s contributes strlen(arg)
// (at least the width), %d contributes declen(arg), the number of characters of the decimal
// representation, with 1 <= declen(n) and declen(n) <= k for 0 <= n < 10^k (k = the width, when a
// width is given). Assumed library behaviour, listed in the evidence.
//
// The ghost counter $wpos (when the contract set declares it) is the number of bytes handed to
// writers so far: a successful Fprintf adds its length.

// varargInners returns the values boxed into the variadic argument slice of call (nil if the slice is
// not a literal built in the calling function).
func (g *Gen) varargInners(st *State, v ssa.Value) ([]ssa.Value, bool) {
	sl, ok := v.(*ssa.Slice)
	if !ok {
		if c, isC := v.(*ssa.Const); isC && c.IsNil() {
			return nil, true
		}
		return nil, false
	}
	al, ok := sl.X.(*ssa.Alloc)
	if !ok {
		return nil, false
	}
	var out []ssa.Value
	for _, ref := range *al.Referrers() {
		ia, ok := ref.(*ssa.IndexAddr)
		if !ok {
			continue
		}
		idx, ok := ia.Index.(*ssa.Const)
		if !ok {
			return nil, false
		}
		i := int(idx.Int64())
		for _, r2 := range *ia.Referrers() {
			if stv, ok := r2.(*ssa.Store); ok && stv.Addr == ia {
				for len(out) <= i {
					out = append(out, nil)
				}
				x := stv.Val
				if mi, ok := x.(*ssa.MakeInterface); ok {
					x = mi.X
				} else if ci, ok := x.(*ssa.ChangeInterface); ok {
					x = ci
				}
				out[i] = x
			}
		}
	}
	for _, o := range out {
		if o == nil {
			return nil, false
		}
	}
	return out, true
}

// fmtLength returns the SMT term of the length of fmt.Sprintf(format, args...) or ok=false.
func (g *Gen) fmtLength(st *State, format ssa.Value, vararg ssa.Value) (string, bool) {
	if !g.opaqueStr {
		return "", false
	}
	fc, ok := format.(*ssa.Const)
	if !ok || fc.Value == nil || fc.Value.Kind() != constant.String {
		return "", false
	}
	f := constant.StringVal(fc.Value)
	args, ok := g.varargInners(st, vararg)
	if !ok {
		return "", false
	}
	sl := g.uf("strlen", 1, "Int")
	lit := 0
	var terms []string
	ai := 0
	for i := 0; i < len(f); i++ {
		if f[i] != '%' {
			lit++
			continue
		}
		i++
		if i >= len(f) {
			return "", false
		}
		if f[i] == '%' {
			lit++
			continue
		}
		width := 0
		for i < len(f) && f[i] >= '0' && f[i] <= '9' {
			width = width*10 + int(f[i]-'0')
			i++
		}
		if i >= len(f) || ai >= len(args) {
			return "", false
		}
		a := g.val(st, args[ai])
		at := args[ai].Type()
		ai++
		var t string
		switch f[i] {
		case 's':
			if a.Kind != "int" || !isStringType(at) {
				return "", false
			}
			t = fmt.Sprintf("(%s %s)", sl, a.T)
			g.assume(st, fmt.Sprintf("(<= 0 %s)", t))
		case 'd':
			if a.Kind != "int" || isStringType(at) {
				return "", false
			}
			dl := g.uf("declen", 1, "Int")
			t = fmt.Sprintf("(%s %s)", dl, a.T)
			g.assume(st, fmt.Sprintf("(and (<= 1 %s) (<= %s 20))", t, t))
			if width > 0 && width <= 18 {
				g.assume(st, fmt.Sprintf("(=> (and (<= 0 %s) (< %s %s)) (<= %s %d))", a.T, a.T, "1"+strings.Repeat("0", width), t, width))
			}
		default:
			return "", false
		}
		if width > 0 {
			t = fmt.Sprintf("(ite (>= %s %d) %s %d)", t, width, t, width)
		}
		terms = append(terms, t)
	}
	if ai != len(args) {
		return "", false
	}
	g.trustedUsed["fmt.Sprintf/Fprintf length model: literal bytes + strlen of %s arguments + declen of %d arguments (declen(n) <= k for 0 <= n < 10^k), widths pad"] = true
	return "(+ " + fmt.Sprint(lit) + " " + strings.Join(terms, " ") + " 0)", true
}

func (g *Gen) fmtSprintf(st *State, call *ssa.CallCommon, result ssa.Value) bool {
	l, ok := g.fmtLength(st, call.Args[0], call.Args[1])
	if !ok {
		return false
	}
	r := g.newSym("sprintf", "Int")
	g.assume(st, fmt.Sprintf("(= (%s %s) %s)", g.uf("strlen", 1, "Int"), r, l))
	g.setResult(result, Val{T: r, Kind: "int"})
	return true
}

func (g *Gen) fmtFprintf(st *State, call *ssa.CallCommon, result ssa.Value) bool {
	pos, has := st.ghost["$wpos"]
	if !has {
		return false
	}
	l, ok := g.fmtLength(st, call.Args[1], call.Args[2])
	if !ok {
		return false
	}
	n := g.newSym("fprintf_n", "Int")
	e := g.newSym("fprintf_err", "Int")
	g.assume(st, fmt.Sprintf("(and (<= 0 %s) (<= %s %s) (=> (= %s 0) (= %s %s)))", n, n, l, e, n, l))
	st.ghost["$wpos"] = Val{T: g.def("wpos", "Int", fmt.Sprintf("(+ %s %s)", pos.T, n)), Kind: "int"}
	ev := Val{T: e, Kind: "err", Ty: callResults(call).At(1).Type()}
	g.foreignErrs(st, ev)
	g.setResult(result, Val{Kind: "tuple", Tup: []Val{intV(n), ev}})
	g.trustedUsed["fmt.Fprintf: without error exactly the formatted bytes are handed to the writer ($wpos advances by the formatted length)"] = true
	return true
}

// entryHeapOf: the array of heap key `key` at function (or call) entry, for old().
func (g *Gen) entryHeapOf(key string) string {
	if o, ok := g.entryHeap[key]; ok {
		return o
	}
	h := "|H0." + key + "|"
	if _, ok := g.decls[h]; !ok {
		g.decls[h] = g.heapSort[key]
		g.declOrder = append(g.declOrder, h)
	}
	return h
}
