package main

import (
	"fmt"
	"go/types"

	"golang.org/x/tools/go/ssa"
)

// io.Copy / io.CopyN (assumed library behaviour): avail(r) is the number of bytes reader r will
// still deliver; a copy appends n bytes to the sink with 0 <= n <= avail (and <= the LimitedReader's
// N / CopyN's count); io.Copy without error drains the source, io.CopyN without error copies exactly
// its count. The copied bytes themselves are not modelled (unconstrained).
func (g *Gen) ioCopy(st *State, name string, call *ssa.CallCommon, result ssa.Value) bool {
	dst := g.val(st, call.Args[0])
	src := g.val(st, call.Args[1])
	r, ok := bufRef(dst)
	if !ok {
		return false
	}
	availUF := g.uf("avail", 1, "Int")
	eff := fmt.Sprintf("(%s %s)", availUF, src.T)
	var limCell *ssa.Alloc
	if src.Elem != nil && src.Elem.Kind == "ptr" && src.Elem.Cell != nil {
		cv := st.cells[src.Elem.Cell]
		if cv.Kind == "struct" && len(cv.Tup) == 2 && cv.Ty != nil && cv.Ty.String() == "io.LimitedReader" {
			inner := fmt.Sprintf("(%s %s)", availUF, cv.Tup[0].T)
			g.assume(st, fmt.Sprintf("(>= %s 0)", inner))
			n := cv.Tup[1].T
			eff = g.def("avail", "Int", fmt.Sprintf("(ite (<= %s 0) 0 (ite (<= %s %s) %s %s))", n, inner, n, inner, n))
			limCell = src.Elem.Cell
		}
	}
	// the same reader after its cell was promoted to the heap (boxing &io.LimitedReader{...} into an
	// io.Reader promotes the local, promote.go): R and N live in the per-field heap arrays. Only for an
	// object allocated in this frame, so nobody else can hold or change it.
	limRef, limKey := "", ""
	if limCell == nil && src.Elem != nil && src.Elem.Kind == "opaque" && src.Elem.T != "" && src.Elem.Ty != nil && st.fresh[src.Elem.T] {
		if pt, ok := src.Elem.Ty.Underlying().(*types.Pointer); ok && pt.Elem().String() == "io.LimitedReader" {
			rKey, _ := g.heapKey(pt, 0)
			nKey, _ := g.heapKey(pt, 1)
			inner := fmt.Sprintf("(%s (select %s %s))", availUF, g.heapGet(st, rKey), src.Elem.T)
			g.assume(st, fmt.Sprintf("(>= %s 0)", inner))
			n := fmt.Sprintf("(select %s %s)", g.heapGet(st, nKey), src.Elem.T)
			eff = g.def("avail", "Int", fmt.Sprintf("(ite (<= %s 0) 0 (ite (<= %s %s) %s %s))", n, inner, n, inner, n))
			limRef, limKey = src.Elem.T, nKey
		}
	}
	// an *io.SectionReader made by io.NewSectionReader(ra, off, n) in this frame and not read before:
	// it delivers at most n bytes, and byte k is byte off+k of ra (rdat(ra, off+k)).
	var sec *[3]string
	if src.Elem != nil && src.Elem.T != "" {
		if sr, ok := g.secReaders[src.Elem.T]; ok {
			sec = &sr
			inner := fmt.Sprintf("(%s %s)", availUF, src.Elem.T)
			eff = g.def("avail", "Int", fmt.Sprintf("(ite (<= %s 0) 0 (ite (<= %s %s) %s %s))", sr[2], inner, sr[2], inner, sr[2]))
			g.assume(st, fmt.Sprintf("(>= %s 0)", inner))
			delete(g.secReaders, src.Elem.T) // a second read would continue at an offset this model does not track
		}
	}
	g.assume(st, fmt.Sprintf("(>= %s 0)", eff))
	n := g.newSym("copied", "Int")
	errv := g.newSym("copyerr", "Int")
	g.assume(st, fmt.Sprintf("(and (<= 0 %s) (<= %s %s) (<= %s %s))", n, n, eff, n, maxLen))
	if name == "io.Copy" {
		g.assume(st, fmt.Sprintf("(=> (= %s 0) (= %s %s))", errv, n, eff))
	} else {
		k := g.val(st, call.Args[2]).T
		g.assume(st, fmt.Sprintf("(and (<= %s (ite (>= %s 0) %s 0)) (= (= %s 0) (= %s (ite (>= %s 0) %s 0))))", n, k, k, errv, n, k, k))
	}
	data := Val{T: g.newSym("copieddata", "(Array Int Int)"), Len: n, Off: "0", Kind: "slice"}
	g.assume(st, fmt.Sprintf("(forall ((k!cd Int)) (and (<= 0 (select %s k!cd)) (<= (select %s k!cd) 255)))", data.T, data.T))
	if sec != nil {
		rdat := g.uf("rdat", 2, "Int")
		g.assume(st, fmt.Sprintf("(forall ((k!sr Int)) (! (=> (and (<= 0 k!sr) (< k!sr %s)) (= (select %s k!sr) (%s %s (+ %s k!sr)))) :pattern ((select %s k!sr))))", n, data.T, rdat, sec[0], sec[1], data.T))
		g.trustedUsed["io.NewSectionReader(ra, off, n) + io.Copy/CopyN: delivers at most n bytes and byte k is byte off+k of ra (rdat(ra, off+k)); ReaderAt contents do not change during validation"] = true
	}
	g.bufAppendSeq(st, r, data)
	if limCell != nil {
		cv := st.cells[limCell]
		nt := append([]Val{}, cv.Tup...)
		nt[1] = Val{T: g.def("lrN", "Int", fmt.Sprintf("(- %s %s)", cv.Tup[1].T, n)), Kind: "int"}
		cv.Tup = nt
		st.cells[limCell] = cv
	}
	if limRef != "" {
		cur := g.heapGet(st, limKey)
		st.heap[limKey] = g.def("H", g.heapSort[limKey], fmt.Sprintf("(store %s %s (- (select %s %s) %s))", cur, limRef, cur, limRef, n))
	}
	ev := Val{T: errv, Kind: "err", Ty: callResults(call).At(1).Type()}
	g.foreignErrs(st, ev)
	g.setResult(result, Val{Kind: "tuple", Tup: []Val{intV(n), ev}})
	g.trustedUsed["io.Copy/io.CopyN: append 0..avail(src) bytes (bounded by LimitedReader.N / the count) to the sink; without error the source is drained / exactly the count is copied"] = true
	return true
}

// io.NewSectionReader(ra, off, n): a fresh reader whose description is remembered for ioCopy.
func (g *Gen) newSectionReader(st *State, call *ssa.CallCommon, result ssa.Value) bool {
	ra := g.val(st, call.Args[0])
	off := g.val(st, call.Args[1])
	n := g.val(st, call.Args[2])
	r := g.freshRef(st)
	if g.secReaders == nil {
		g.secReaders = map[string][3]string{}
	}
	g.secReaders[r] = [3]string{ra.T, off.T, n.T}
	g.setResult(result, Val{T: r, Kind: "opaque", Ty: result.Type()})
	return true
}
