/-
Induction schemas used by govc (DESIGN.md 3.3): they lift a per-token statement, which govc proves
about the REAL loop body with SMT (loop lemmas), to the whole input. No Mathlib.

`run step q us` executes a loop body `step` once per input unit, left to right.
-/

def run {S U : Type} (step : S → U → S) : S → List U → S
  | s, [] => s
  | s, u :: us => run step (step s u) us

theorem run_append {S U : Type} (step : S → U → S) (s : S) (xs ys : List U) :
    run step s (xs ++ ys) = run step (run step s xs) ys := by
  induction xs generalizing s with
  | nil => rfl
  | cons x xs ih => simp [run, ih]

/-- fold_tokens: the loop state is (control state, output so far). If from the neutral control state
`q0` every token `tok a` brings the loop back to `q0` having appended exactly `a`, then running the
loop over the concatenation of the tokens of `s` appends exactly `s`.
Instances: Unescape ∘ Escape (tok = tokEsc), DecodeName ∘ EncodeName (tok = tokName),
decodeUTF16String over the code units of a scalar sequence (tok = big-endian UTF-16 units). -/
theorem fold_tokens {Q U A : Type} (step : Q × List A → U → Q × List A) (tok : A → List U) (q0 : Q)
    (h : ∀ (a : A) (out : List A), run step (q0, out) (tok a) = (q0, out ++ [a])) :
    ∀ (s : List A) (out : List A), run step (q0, out) (s.flatMap tok) = (q0, out ++ s) := by
  intro s
  induction s with
  | nil => intro out; simp [run]
  | cons a s ih =>
    intro out
    simp only [List.flatMap_cons, run_append, h, ih, List.append_assoc, List.singleton_append]

/-- all_tokens: a predicate that holds for every unit of every token holds for every unit of the
concatenation (e.g. "encoded names contain only regular characters"). -/
theorem all_tokens {U A : Type} (tok : A → List U) (P : U → Prop)
    (h : ∀ (a : A) (u : U), u ∈ tok a → P u) :
    ∀ (s : List A) (u : U), u ∈ s.flatMap tok → P u := by
  intro s u hu
  rcases List.mem_flatMap.mp hu with ⟨a, _, hua⟩
  exact h a u hua

/-- emit_tokens: an encoder loop that appends `tok a` for each input element produces the
concatenation of the tokens (Escape, EncodeName). -/
theorem emit_tokens {U A : Type} (step : List U → A → List U) (tok : A → List U)
    (h : ∀ (a : A) (out : List U), step out a = out ++ tok a) :
    ∀ (s : List A) (out : List U), run step out s = out ++ s.flatMap tok := by
  intro s
  induction s with
  | nil => intro out; simp [run]
  | cons a s ih => intro out; simp [run, h, ih, List.flatMap_cons, List.append_assoc]

/-
C22: PKCS#7-style padding as proved of `encryptAESBytes` (the plaintext followed by `c` bytes of value
`c`, `1 ≤ c ≤ 16`) and the strip rule proved of `decryptAESBytes` (drop `last` bytes when
`last ≤ 16`) compose to the identity on every byte string, the empty one included.
-/
def strip (d : List Nat) : List Nat :=
  match d.getLast? with
  | some l => if l ≤ 16 then d.take (d.length - l) else d
  | none => d

theorem pad_strip (b : List Nat) (c : Nat) (h1 : 1 ≤ c) (h16 : c ≤ 16) :
    strip (b ++ List.replicate c c) = b := by
  have hlast : (b ++ List.replicate c c).getLast? = some c := by
    simp [List.getLast?_append, List.getLast?_replicate]
    omega
  unfold strip
  rw [hlast]
  simp [h16]
