#!/bin/bash
# usage: mk_seed_wt.sh <id>  -> scratch worktree /tmp/wt-<id> of /repo HEAD with the verif contract files removed
# (so the agent sees nothing of /verif's contracts), out dir /tmp/seed-out/<id>, prompt /tmp/seed-out/prompt-<id>.txt
id=$1; wt=/tmp/wt-$id; out=/tmp/seed-out/$id
mkdir -p $out
git -C /repo worktree add -q --detach $wt HEAD || exit 2
cd $wt
git rm -q $(git ls-files | grep zz_verif_contracts.go) && git -c user.name=scratch -c user.email=s@x commit -q -m "scratch base"
python3 - "$id" <<'PY'
import json,sys
id=sys.argv[1]
for l in open('/verif/properties.jsonl'):
    p=json.loads(l)
    if p['id']==id: break
txt=f"""You are helping to evaluate how well a test/verification setup detects regressions in the Go project pdfcpu (a PDF processing library and CLI). You have your own scratch git worktree of the repository at /tmp/wt-{id} (work ONLY there; never touch /repo or /verif, and do not read anything under /verif).

Here is a semantic property the project is supposed to satisfy:

  Title: {p['title']}
  Statement: {p['statement']}
  Quantified over: {p['quantifier']['text']}
  Why ordinary tests do not settle it: {p['why_tests_cant']}
  Code anchors: files {', '.join(p['anchors']['files'])}; mechanisms: {'; '.join(m['name']+' ('+m['where']+')' for m in p['anchors']['mechanism'])}

Your task: write ONE realistic change to the pdfcpu source in /tmp/wt-{id} (non-test .go files only) that BREAKS this property, while the project still compiles and the existing test suite still passes. The change should look like something a developer could plausibly commit (a refactoring slip, an optimisation, a 'simplification', a boundary error), and it must need something SPECIFIC to manifest - an unusual input or boundary value, a particular configuration, a fault or crash at a particular point, a multi-step sequence of operations, or two cooperating sites that each look fine alone - NOT something ordinary use would expose at once. Keep it small (ideally under 30 changed lines) and do not add new files to the source tree.

Environment: no network. Before every go command: export GOFLAGS=-mod=mod GOPROXY=off  (leave GOTOOLCHAIN unset). Some sample files in testdata are empty in this sandbox, so a few tests in pkg/api/test, pkg/cli/test and pkg/pdfcpu (TestReadTIFFWritePNG) fail even WITHOUT any change; those do not count. Run at least the tests of the packages you touched plus the packages that import them most directly (go test -vet=off -count=1 -timeout 20m <pkgs>), compare with the unchanged tree when something fails.

Deliverables, all in /tmp/seed-out/{id}/ :
  1. patch.diff   - `git diff` of your change (relative to the worktree HEAD), applying cleanly with `git apply`.
  2. demo_test.go - a Go test file (package = the package of a directory you name in meta.json as "demo_dir", test function name starting with TestSeedDemo) that FAILS with the change and PASSES without it, when copied into that directory and run with go test -vet=off -count=1 -run TestSeedDemo ./<demo_dir>/ . It must be self-contained (build its inputs in the test; use t.TempDir()).
  3. meta.json    - {{"property": "{id}", "summary": what the change does, "needs": what specific circumstance it needs to manifest, "demo_dir": relative dir, "tests_run": which test commands you ran with the change and their outcome}}.
Verify yourself: demo fails with the change, passes without (use git apply -R; do NOT use git stash: the stash stack is shared between worktrees), then leave the worktree with the change REVERTED (clean `git status`) and no extra files in it. Report briefly what you did."""
open(f'/tmp/seed-out/prompt-{id}.txt','w').write(txt)
PY
echo "$wt ready; prompt /tmp/seed-out/prompt-$id.txt"
