#!/bin/bash
# runs every claimed quick check on the unchanged tree; prints one summary line each; exit 1 if any fails
cd /verif; export GOFLAGS=-mod=mod GOPROXY=off
rc=0
for p in $(python3 -c "import json;print(' '.join(c['property_id'] for c in json.load(open('MANIFEST.json'))['checks']))"); do
  [ -n "$1" ] && ! echo " $* " | grep -q " $p " && continue
  out=$(bin/govc check --property $p --tier quick 2>&1); e=$?
  echo "$out" | grep "VIOLATION\|ERROR\|KNOWN" | cut -c1-220
  echo "exit=$e $(echo "$out" | tail -1 | cut -c1-200)"
  [ $e -ne 0 ] && rc=1
done
exit $rc
