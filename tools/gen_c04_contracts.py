#!/usr/bin/env python3
"""Generates the C04 call obligations: for every function of cmd/pdfcpu that calls a cli.*Command
constructor with an output file / directory parameter, a contract whose callpre clauses demand the
overwrite guard (okFile / okDir) for that argument. Written between markers into
/repo/cmd/pdfcpu/zz_verif_contracts.go. The two constructors whose output is UPDATED by documented design
(merge -m append, import) are listed as exemptions, not silently skipped."""
import re, glob, os, sys
repo = "/repo"
EXEMPT = {"MergeAppendCommand": "merge -m append adds to an existing outFile by design (validateMergeFiles guards the other modes)",
          "ImportImagesCommand": "import appends pages to an existing outFile by design"}
OUTFILE = re.compile(r"^(outFile\w*)$")
OUTDIR = re.compile(r"^(outDir|dirNameOut)$")
def split_params(ps):
    out, cur, depth = [], "", 0
    for ch in ps:
        if ch in "([{": depth += 1
        if ch in ")]}": depth -= 1
        if ch == "," and depth == 0:
            out.append(cur.strip()); cur = ""
        else:
            cur += ch
    if cur.strip(): out.append(cur.strip())
    names = []
    for p in out:
        parts = p.split()
        names.append(parts[0])
    return names
ctors = {}
for f in sorted(glob.glob(repo + "/pkg/cli/*.go")):
    if f.endswith("_test.go"): continue
    for m in re.finditer(r"(?m)^func ([A-Z]\w*Command)\(([^)]*(?:\([^)]*\)[^)]*)*)\) \*Command", open(f).read()):
        names = split_params(m.group(2))
        files = [n for n in names if OUTFILE.match(n)]
        dirs = [n for n in names if OUTDIR.match(n)]
        ins = [n for n in names if n in ("inFile", "inFilePDF")]
        if files or dirs:
            ctors[m.group(1)] = (files, dirs, ins)
funcs = []
for f in sorted(glob.glob(repo + "/cmd/pdfcpu/*.go")):
    if f.endswith("_test.go") or "zz_verif" in f: continue
    src = open(f).read()
    for m in re.finditer(r"(?ms)^func (\w+)\(([^)]*)\) ?([^{]*)\{\n(.*?)^\}", src):
        name, params, res, body = m.group(1), " ".join(m.group(2).split()), m.group(3).strip(), m.group(4)
        used = []
        for c in re.findall(r"cli\.(\w+Command)\(", body):
            if c in ctors and c not in used: used.append(c)
        if used:
            funcs.append((os.path.basename(f), name, params, res, used))
out = ["//@ # BEGIN generated overwrite-guard obligations (tools/gen_c04_contracts.py)"]
n = 0
for fn, name, params, res, used in funcs:
    if res == "error": rs = "(err error)"
    elif res == "": rs = ""
    else:
        out.append(f"// {name} ({fn}): result list {res} - add by hand")
        continue
    lines = [f"//@ func {name}({params}) {rs}".rstrip(), "//@   property C04", "//@   opt opaque_strings", "//@   opt safety assumed",
             "//@   modifies heap", "//@   keeps $exists $nonEmptyDir force"]
    k = 0
    for c in used:
        if c in EXEMPT:
            lines.append(f"// cli.{c}: exempt - {EXEMPT[c]}")
            continue
        files, dirs, ins = ctors[c]
        inplace = f" || arg_{files[0]} == arg_{ins[0]}" if files and ins else ""
        if files and dirs:
            lines.append(f"//@   callpre cli.{c} :: nooverwrite: arg_{files[0]} == \"-\" || okDir(arg_{dirs[0]}) || okFile(pathJoin2(arg_{dirs[0]}, arg_{files[0]}))")
            k += 1
        else:
            for a in files:
                lines.append(f"//@   callpre cli.{c} :: nooverwrite: okFile(arg_{a}){inplace}"); k += 1
            for a in dirs:
                lines.append(f"//@   callpre cli.{c} :: nooverwrite: okDir(arg_{a})"); k += 1
    if k == 0:
        out.append(f"// {name} ({fn}): only exempt constructors ({', '.join(used)})")
        continue
    out += lines + [""]
    n += 1
out.append("//@ # END generated overwrite-guard obligations")
p = repo + "/cmd/pdfcpu/zz_verif_contracts.go"
s = open(p).read()
b, e = "//@ # BEGIN generated overwrite-guard obligations", "//@ # END generated overwrite-guard obligations"
if b in s:
    s = s[:s.index(b)] + "\n".join(out) + s[s.index(e) + len(e):]
else:
    s = s.rstrip("\n") + "\n\n" + "\n".join(out) + "\n"
open(p, "w").write(s)
print(f"{n} functions under contract, {len(ctors)} constructors with outputs")
