#!/usr/bin/env python3
import json, sys, glob, jsonschema
sch = json.load(open('/root/.vp/EVIDENCE.schema.json'))
for f in sorted(glob.glob('/verif/evidence/*.json')):
    jsonschema.validate(json.load(open(f)), sch)
    print('valid', f)
