#!/usr/bin/env python3
"""Must-fail corpus: every patch under selftest/mutants/<prop>/*.diff (and seeded/*/patch.diff with a
meta.json naming the property) must make the property's check report a VIOLATION; the patched
sources are handed to govc through an overlay, /repo is not touched.
usage: selftest.py [prop ...]"""
import json, os, re, subprocess, sys, tempfile, shutil, glob
root = "/verif"
repo = os.environ.get("VERIF_REPO", "/repo")
def run_mutant(prop, diff, expect=None):
    tmp = tempfile.mkdtemp(prefix="govc-mut-")
    try:
        files = re.findall(r"^\+\+\+ b/(\S+)", open(diff).read(), re.M)
        for f in files:
            os.makedirs(os.path.dirname(os.path.join(tmp, f)), exist_ok=True)
            if os.path.exists(os.path.join(repo, f)):
                shutil.copy(os.path.join(repo, f), os.path.join(tmp, f))
        r = subprocess.run(["patch", "-p1", "-s", "-d", tmp, "-i", os.path.abspath(diff)], capture_output=True, text=True)
        if r.returncode != 0:
            return "PATCH-FAILED " + r.stdout + r.stderr
        ov = ",".join(f"{os.path.join(repo, f)}={os.path.join(tmp, f)}" for f in files if f.endswith(".go"))
        # mutant runs skip the second, longer attempt at undecided obligations (they count as caught anyway)
        r = subprocess.run([os.path.join(root, "bin/govc"), "check", "--property", prop, "--no-evidence", "--overlay", ov], capture_output=True, text=True, cwd=root, env=dict(os.environ, GOVC_NO_RETRY="1"))
        viol = [l for l in r.stdout.splitlines() if l.startswith("VIOLATION")]
        if r.returncode == 1 and viol:
            if expect and not any(expect in v for v in viol):
                return "WRONG-OBLIGATION " + "; ".join(v.split("obligation=")[1] for v in viol)
            return "caught: " + "; ".join(v.split("obligation=")[1] for v in viol[:3])
        return f"MISSED (exit {r.returncode}) " + r.stdout[-300:]
    finally:
        shutil.rmtree(tmp, ignore_errors=True)
def main():
    want = set(sys.argv[1:])
    bad = 0
    items = []
    for d in sorted(glob.glob(os.path.join(root, "selftest/mutants/*/*.diff"))):
        prop = os.path.basename(os.path.dirname(d))
        exp = None
        e = d[:-5] + ".expect"
        if os.path.exists(e):
            exp = open(e).read().strip()
        items.append((prop, d, exp))
    for m in sorted(glob.glob(os.path.join(root, "seeded/*/meta.json"))):
        meta = json.load(open(m))
        items.append((meta["property"], os.path.join(os.path.dirname(m), "patch.diff"), None))
    checked = {}
    for prop, d, exp in items:
        if want and prop not in want:
            continue
        if prop not in checked:
            # a mutant only counts as caught if the unchanged tree is clean for this property
            r = subprocess.run([os.path.join(root, "bin/govc"), "check", "--property", prop, "--no-evidence"], capture_output=True, text=True, cwd=root)
            checked[prop] = r.returncode
            if r.returncode != 0:
                print(f"{prop}: BASELINE NOT CLEAN (exit {r.returncode}) - mutant results for it are meaningless")
                bad += 1
        if checked[prop] != 0:
            continue
        res = run_mutant(prop, d, exp)
        ok = res.startswith("caught")
        bad += 0 if ok else 1
        print(f"{prop} {os.path.relpath(d, root)}: {res}")
    print("selftest:", "all mutants caught" if bad == 0 else f"{bad} NOT caught")
    sys.exit(1 if bad else 0)
main()
