#!/bin/bash
# robustness sweep: every claimed check under shifted symbol numberings; lists obligations that are not
# discharged or take longer than 8 s under any shift. usage: robust.sh [prop ...]
cd /verif; export GOFLAGS=-mod=mod GOPROXY=off
props=${*:-$(python3 -c "import json;print(' '.join(c['property_id'] for c in json.load(open('MANIFEST.json'))['checks']))")}
for p in $props; do
  for n in 1000 5003; do
    GOVC_PERTURB=$n bin/govc check --property $p --no-evidence -v 2>&1 | awk -v p=$p -v n=$n '
      /^  [a-zA-Z]/ { t=$NF; sub("s$","",t); if (($2!="unsat" && $2!="sat") || t+0 > 8.0) print p, "shift=" n, $0 }
      /^VIOLATION/ { print p, "shift=" n, substr($0,1,200) }'
  done
done
echo sweep-done
