#!/bin/bash
# usage: keep_seed.sh <id> <name> "<what I ran>"  -> copies deliverables to /verif/seeded/<name>/ and removes the worktree
id=$1; name=$2; ran=$3
d=/verif/seeded/$name; mkdir -p $d
cp /tmp/seed-out/$id/patch.diff $d/patch.diff
cp /tmp/seed-out/$id/*_test.go $d/ 2>/dev/null
[ -d /tmp/seed-out/$id/demo ] && cp -r /tmp/seed-out/$id/demo $d/
python3 - "$id" "$d" "$ran" <<'PY'
import json,sys
id,d,ran=sys.argv[1:4]
try: m=json.load(open(f'/tmp/seed-out/{id}/meta.json'))
except Exception as e: m={"property":id,"summary":"(agent meta.json unreadable)"}
m["property"]=id
m["confirmed_by_me"]=ran
json.dump(m,open(d+'/meta.json','w'),indent=1)
PY
git -C /repo worktree remove --force /tmp/wt-$id && echo "worktree removed"
