#!/usr/bin/env python3
"""Regenerates /verif/MANIFEST.json from props/props.json (single source of truth) and validates it."""
import json, subprocess, sys, os
root = os.path.dirname(os.path.dirname(os.path.abspath(__file__)))
props = json.load(open(os.path.join(root, "props/props.json")))
ids = [json.loads(l)["id"] for l in open(os.path.join(root, "properties.jsonl"))]
hooks_commits = subprocess.run(["git", "-C", "/repo", "log", "--format=%H %s", "32174d82..HEAD"], capture_output=True, text=True).stdout.strip().splitlines()
src = [l.split()[0] for l in hooks_commits if " verif:" in l or " hook" in l.lower() or "verif" in l.split(" ", 1)[1][:12]]
base = json.load(open("/root/.vp/BASELINE.json"))
man = {
    "version": 1,
    "setup_cmd": "cd govc && GOFLAGS=-mod=vendor GOPROXY=off GOTOOLCHAIN=local go1.26.8 build -o ../bin/govc . && cd .. && bin/govc version",
    "hooks": {
        "guard": "verif",
        "enable": "-tags verif (adds only comment-only contract files zz_verif_contracts.go; govc loads /repo with this tag; no instrumentation is compiled in - replays use go test -overlay)",
        "baseline_off_cmd": base["cmd"],
        "source_commits": src,
        "add_only": True,
    },
    "engines": [{
        "name": "govc",
        "path": "govc/",
        "serves_properties": [p for p in ids if props.get(p, {}).get("claimed")],
        "kind_free_text": "contract-based deductive verifier written for this task: go/packages+go/ssa (naive form) of /repo's working tree -> weakest-precondition style VCs per function against //@ contracts kept in /repo behind build tag verif -> SMT-LIB discharged by z3 5.1 / z3 4.8 / cvc5 1.0; counterexamples replayed on the real code with go test -overlay",
    }],
    "checks": [],
    "not_applicable": [],
    "notes": "See DESIGN.md. Every claimed check: exit 0 iff every obligation generated from /repo's current source is discharged (known findings listed in known_findings.json are printed as KNOWN-FINDING and excluded); a failed obligation is reported as VIOLATION with the replay file naming the obligation.",
}
for pid in ids:
    p = props.get(pid, {})
    if p.get("claimed"):
        man["checks"].append({
            "property_id": pid,
            "quick_cmd": f"bin/govc check --property {pid} --tier quick",
            "thorough_cmd": f"bin/govc check --property {pid} --tier thorough",
            "evidence_file": f"evidence/{pid}.json",
            "replay_cmd_template": "bin/govc replay {path}",
            "engine": "govc",
            "level_claimed": {"category": p.get("category", "proof"), "text": p["text"], "design_ref": p.get("design_ref", "DESIGN.md section 7, " + pid)},
            "level_note": p["note"],
            "technique": p.get("technique", "contract-based deductive verification (self-generated VCs over go/ssa, SMT-discharged)"),
        })
    else:
        man["not_applicable"].append({"property_id": pid, "reason": p.get("reason", "planned, not yet discharged")})
json.dump(man, open(os.path.join(root, "MANIFEST.json"), "w"), indent=1)
try:
    import jsonschema
    jsonschema.validate(man, json.load(open("/root/.vp/MANIFEST.schema.json")))
    print("MANIFEST valid:", len(man["checks"]), "checks,", len(man["not_applicable"]), "not applicable")
except ImportError:
    print("jsonschema not available; written without validation")
