#!/usr/bin/env python3
"""mkmut.py <prop> <name> <repo-relative file> <old> <new> [count]: writes selftest/mutants/<prop>/<name>.diff
replacing the (count-th, default only) occurrence of <old> by <new>; /repo is not touched."""
import sys, os, subprocess, tempfile, shutil
prop, name, f, old, new = sys.argv[1:6]
nth = int(sys.argv[6]) if len(sys.argv) > 6 else 0
src = open('/repo/' + f).read()
n = src.count(old)
if n == 0 or (n > 1 and nth == 0):
    sys.exit(f"'{old}' occurs {n} times in {f}")
if nth == 0: nth = 1
parts = src.split(old)
out = old.join(parts[:nth]) + new + old.join(parts[nth:])
tmp = tempfile.mkdtemp()
a, b = os.path.join(tmp, 'a', f), os.path.join(tmp, 'b', f)
os.makedirs(os.path.dirname(a)); os.makedirs(os.path.dirname(b))
open(a, 'w').write(src); open(b, 'w').write(out)
r = subprocess.run(['diff', '-u', 'a/' + f, 'b/' + f], cwd=tmp, capture_output=True, text=True)
d = f"/verif/selftest/mutants/{prop}"
os.makedirs(d, exist_ok=True)
open(f"{d}/{name}.diff", 'w').write(f"diff --git a/{f} b/{f}\n" + r.stdout)
shutil.rmtree(tmp)
print(f"{d}/{name}.diff")
