#!/usr/bin/env python3
"""Generates the staging-protocol contracts (C01/C02/C03) for every pkg/api function that calls
openStagedOutput, between markers in /repo/pkg/api/zz_verif_contracts.go. The clause set is the
same for every function; functions listed in SKIP are left without contract (reason given there)."""
import re, glob, os, sys
repo = "/repo"
SKIP = {}   # name -> reason (filled after the first run)
skipfile = "/verif/tools/protocol_skip.txt"
if os.path.exists(skipfile):
    for l in open(skipfile):
        l = l.strip()
        if l and not l.startswith("#"):
            n, _, r = l.partition(":")
            SKIP[n.strip()] = r.strip()
funcs = []
for f in sorted(glob.glob(repo + "/pkg/api/*.go")):
    if f.endswith("_test.go") or f.endswith("file.go") or "zz_verif" in f:
        continue
    src = open(f).read()
    parts = re.split(r"(?m)^func ", src)
    for p in parts[1:]:
        if "openStagedOutput(" not in p.split("\n}\n")[0]:
            continue
        hdr = p.split("{\n")[0]
        h = hdr.strip()
        recv = None
        if h.startswith("("):
            j = h.index(")")
            recv = h[1:j].split()[-1].lstrip("*")
            h = h[j+1:].strip()
        i = h.index("(")
        name = h[:i]
        depth = 0
        for j in range(i, len(h)):
            if h[j] == "(": depth += 1
            elif h[j] == ")":
                depth -= 1
                if depth == 0: break
        params, res = h[i+1:j], h[j+1:].strip()
        funcs.append((os.path.basename(f), (recv + "." if recv else "") + name, " ".join(params.split()), res.strip()))
# MergeCreateZipFile renames the context of staged.inputs[0] after withInput (an append whose result
# may or may not share the backing array): the store goes to an array whose provenance the contracts do
# not track, so the memory frame is left open for it (nothing in C01-C03 speaks about slice contents).
EXTRA = {"MergeCreateZipFile": ["//@   modifies mem"]}
out = ["//@ # BEGIN generated staging-protocol contracts (tools/gen_protocol_contracts.py)"]
n = 0
for fn, name, params, res in funcs:
    if name in ("OptimizeFile", "MergeCreateFile"):
        continue  # written by hand above
    if name in SKIP:
        out.append(f"// {name} ({fn}): not under contract - {SKIP[name]}")
        continue
    if "err error" not in res:
        out.append(f"// {name} ({fn}): not under contract - no named error result (the protocol clauses refer to err)")
        continue
    n += 1
    out += [f"//@ func {name}({params}) {res}",
            "//@   property C01 C02 C03",
            "//@   opt opaque_strings",
            "//@   requires $faults == 0 && $stage == 0 && !$outClosed",
            *EXTRA.get(name, []),
            "//@   modifies heap $exists $data $mode $faults $stage $outClosed",
            "//@   keeps $exists $data $mode $faults $stage $outClosed",
            "//@   ghostset openStagedOutput :: $stage = err == nil ? 1 : 0",
            "//@   ghostset stagedOutput.commit :: $stage = err == nil ? 2 : 3",
            "//@   ghostset stagedOutput.cleanup :: $stage = 3",
            "//@   callpre stagedOutput.commit :: protocol: $stage == 1 && !$panicking && err == nil",
            "//@   callpre stagedOutput.cleanup :: protocol: $stage == 1",
            "//@   ensures committed: err == nil ==> $stage == 2 || $stage == 0",
            "//@   ensures aborted:   err != nil ==> $stage == 0 || $stage == 3",
            "//@   ensures undamaged: err != nil ==> undamaged()",
            "//@   ensures_panic aborted: $stage == 0 || $stage == 3",
            "//@   ensures_panic undamaged: undamaged()",
            ""]
out.append("//@ # END generated staging-protocol contracts")
p = repo + "/pkg/api/zz_verif_contracts.go"
s = open(p).read()
blk = "\n".join(out) + "\n"
if "# BEGIN generated staging-protocol" in s:
    s = re.sub(r"//@ # BEGIN generated staging-protocol.*//@ # END generated staging-protocol contracts\n", lambda m: blk, s, flags=re.S)
else:
    s += "\n" + blk
open(p, "w").write(s)
print("functions:", len(funcs), "contracts written:", n)
