#!/usr/bin/env python3
"""addprop.py <id> <textfile>: textfile has two paragraphs (level text, blank line, note); sets props/props.json[id] claimed and regenerates MANIFEST."""
import json, sys, subprocess
pid, tf = sys.argv[1:3]
text, note = open(tf).read().strip().split("\n\n", 1)
p = json.load(open('/verif/props/props.json'))
e = p.get(pid, {})
e.update({"claimed": True, "text": " ".join(text.split()), "note": " ".join(note.split())})
e.pop("reason", None)
p[pid] = e
json.dump(p, open('/verif/props/props.json', 'w'), indent=1)
subprocess.run(["python3-vt", "/verif/tools/mkmanifest.py"])
