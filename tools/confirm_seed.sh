#!/bin/bash
# usage: confirm_seed.sh <id> <demo-target-dir-rel> <go-test-pkg-pattern...>
# Confirms in the agent's scratch worktree /tmp/wt-<id>: builds; demo fails with change, passes without; named package tests pass with change.
id=$1; dir=$2; shift 2
wt=/tmp/wt-$id; out=/tmp/seed-out/$id
export GOFLAGS=-mod=mod GOPROXY=off
cd $wt || exit 2
git checkout -q -- . 2>/dev/null
git apply $out/patch.diff || { echo "PATCH DOES NOT APPLY"; exit 2; }
go build ./... || { echo "BUILD FAILS"; exit 2; }
demo=$(ls $out/*_test.go | head -1)
cp $demo $dir/zz_seed_demo_test.go
go test -vet=off -count=1 -timeout 10m -run 'Seed|Demo' ./$dir/ > /tmp/seed-out/$id/demo_with.log 2>&1; w=$?
git apply -R $out/patch.diff
go test -vet=off -count=1 -timeout 10m -run 'Seed|Demo' ./$dir/ > /tmp/seed-out/$id/demo_without.log 2>&1; wo=$?
rm -f $dir/zz_seed_demo_test.go
git apply $out/patch.diff
echo "demo with change: exit $w (want !=0); without: exit $wo (want 0)"
go test -vet=off -count=1 -timeout 20m "$@" 2>&1 | tail -15
git apply -R $out/patch.diff
